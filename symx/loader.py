"""symx.loader -- load metomi.isodatetime from /repo's *current working tree*
through one mechanical AST rewrite:

  * `a % b`  ->  `__symx_mod__(a, b)`   (identical to `a % b` on concrete values)
  * first statement of every `def`: `__symx_enter__("qualname")`
  * module globals int/float/isinstance/range/hash/str are bound to shims that
    are the identity on concrete values (see symx.core.SHIMS)

.pyc caches are bypassed, so an edited source file is always what runs.
"""
import ast
import importlib.abc
import importlib.machinery
import importlib.util
import os
import sys

from . import core
from . import strs

strs.install()


def _join(sep, it):
    items = list(it)
    if any(type(x) is strs.SymStr for x in items) or type(sep) is strs.SymStr:
        out = []
        for k, x in enumerate(items):
            if k:
                out.extend(strs.SymStr.lift(sep))
            out.extend(strs.SymStr.lift(x))
        return strs.SymStr.make(out)
    return sep.join(items)


REPO = os.environ.get("VERIF_REPO", "/repo")
PKG = "metomi.isodatetime"
_installed = False
COUNT_ENTER = True


def _enter(qualname):
    e = core.ENG
    if e is not None:
        e.entered[qualname] = e.entered.get(qualname, 0) + 1


class _Rewriter(ast.NodeTransformer):
    def __init__(self, modname):
        self.stack = []
        self.modname = modname

    def visit_BinOp(self, node):
        self.generic_visit(node)
        if isinstance(node.op, ast.Mod):
            return ast.copy_location(ast.Call(
                func=ast.Name(id="__symx_mod__", ctx=ast.Load()),
                args=[node.left, node.right], keywords=[]), node)
        return node

    def visit_AugAssign(self, node):
        self.generic_visit(node)
        return node

    def visit_Import(self, node):
        # `import re` -> the regex shim (delegates to CPython's re on plain strings)
        out = []
        for a in node.names:
            if a.name == "re":
                out.append(ast.copy_location(ast.ImportFrom(
                    module="symx.strs", names=[ast.alias(name="re_shim", asname=a.asname or "re")], level=0), node))
            else:
                out.append(ast.copy_location(ast.Import(names=[a]), node))
        return out

    def visit_Call(self, node):
        self.generic_visit(node)
        f = node.func
        if isinstance(f, ast.Attribute) and f.attr == "format" and not any(
                isinstance(a, ast.Starred) for a in node.args) and not any(k.arg is None for k in node.keywords):
            return ast.copy_location(ast.Call(func=ast.Name(id="__symx_format__", ctx=ast.Load()),
                                              args=[f.value] + node.args, keywords=node.keywords), node)
        if isinstance(f, ast.Attribute) and f.attr == "format":
            return ast.copy_location(ast.Call(func=ast.Name(id="__symx_format__", ctx=ast.Load()),
                                              args=[f.value] + node.args, keywords=node.keywords), node)
        if (isinstance(f, ast.Attribute) and f.attr == "join" and len(node.args) == 1 and not node.keywords and
                isinstance(f.value, ast.Constant) and isinstance(f.value.value, str)):
            return ast.copy_location(ast.Call(func=ast.Name(id="__symx_join__", ctx=ast.Load()),
                                              args=[f.value, node.args[0]], keywords=[]), node)
        return node

    def visit_ClassDef(self, node):
        self.stack.append(node.name)
        self.generic_visit(node)
        self.stack.pop()
        return node

    def _func(self, node):
        self.stack.append(node.name)
        self.generic_visit(node)
        qual = self.modname + "." + ".".join(self.stack)
        self.stack.pop()
        if COUNT_ENTER:
            call = ast.Expr(ast.Call(
                func=ast.Name(id="__symx_enter__", ctx=ast.Load()),
                args=[ast.Constant(qual)], keywords=[]))
            ast.copy_location(call, node.body[0])
            # keep a docstring first
            i = 0
            if (isinstance(node.body[0], ast.Expr) and
                    isinstance(getattr(node.body[0], "value", None), ast.Constant) and
                    isinstance(node.body[0].value.value, str)):
                i = 1
            node.body.insert(i, call)
        return node

    visit_FunctionDef = _func
    visit_AsyncFunctionDef = _func


class _Loader(importlib.machinery.SourceFileLoader):
    def source_to_code(self, data, path, *, _optimize=-1):
        tree = ast.parse(data, path)
        short = self.name.split(".")[-1]
        tree = _Rewriter(short).visit(tree)
        ast.fix_missing_locations(tree)
        return compile(tree, path, "exec", dont_inherit=True, optimize=_optimize)

    def get_code(self, fullname):       # bypass .pyc
        path = self.get_filename(fullname)
        return self.source_to_code(self.get_data(path), path)

    def exec_module(self, module):
        d = module.__dict__
        d["__symx_mod__"] = core.symx_mod
        d["__symx_enter__"] = _enter
        d["__symx_format__"] = strs.sym_format
        d["__symx_join__"] = _join
        d["__symx_marker__"] = True
        for k, v in core.SHIMS.items():
            if k != "floor":
                d[k] = v
        super().exec_module(module)
        post_exec(module)


# the memoisations this machinery knows and models (C15 decides their key determinacy); any OTHER lru_cache stays in
# place, so that symbolic arguments reaching it raise Unsupported (=> the path is reported as not decided) instead of the
# cache being silently assumed transparent
KNOWN_CACHES = {
    "data": {"get_is_leap_year", "_get_days_in_year_range", "_get_days_in_year", "_get_days_in_month", "_get_weeks_in_year",
             "_get_calendar_date_week_date_start", "_get_days_since_1_ad", "_get_ordinal_date_week_date_start",
             "_iter_months_days"},
    "dumpers": {"TimePointDumper._get_expression_and_properties", "TimePointDumper.get_time_zone"},
}


def post_exec(module):
    """Re-bind names the module itself imported (floor) and strip lru_cache
    wrappers from module-level functions (a C-level cache would hash() the
    proxies); the un-memoised bodies are what runs symbolically."""
    d = module.__dict__
    if "floor" in d:
        d["floor"] = core.sym_floor
    short = module.__name__.split(".")[-1]
    known = KNOWN_CACHES.get(short, set())
    unwrapped, unknown = {}, []
    for name, f in list(d.items()):
        if hasattr(f, "__wrapped__") and hasattr(f, "cache_info") and getattr(f, "__module__", None) == module.__name__:
            if name in known:
                unwrapped[name] = f
                d[name] = f.__wrapped__
            else:
                unknown.append(name)
    for name, cls in list(d.items()):
        if isinstance(cls, type) and cls.__module__ == module.__name__:
            for an, f in list(vars(cls).items()):
                if hasattr(f, "__wrapped__") and hasattr(f, "cache_info"):
                    if "%s.%s" % (name, an) in known:
                        setattr(cls, an, f.__wrapped__)
                    else:
                        unknown.append("%s.%s" % (name, an))
    d["__symx_lru__"] = unwrapped
    d["__symx_unknown_caches__"] = unknown


class _Finder(importlib.abc.MetaPathFinder):
    def find_spec(self, fullname, path, target=None):
        if fullname == "metomi":
            # the namespace package itself, rooted in the tree under test (no
            # dependence on an editable install being visible to this venv)
            spec = importlib.machinery.ModuleSpec("metomi", None, is_package=True)
            spec.submodule_search_locations = [os.path.join(REPO, "metomi")]
            return spec
        if fullname != PKG and not fullname.startswith(PKG + "."):
            return None
        rel = fullname.split(".")
        if len(rel) > 2 and rel[2] == "tests":
            base = os.path.join(REPO, *rel)
            if os.path.isdir(base):
                f = os.path.join(base, "__init__.py")
                return importlib.util.spec_from_file_location(
                    fullname, f, submodule_search_locations=[base])
            return importlib.util.spec_from_file_location(fullname, base + ".py")
        base = os.path.join(REPO, *rel)
        if os.path.isdir(base):
            f = os.path.join(base, "__init__.py")
            return importlib.util.spec_from_file_location(
                fullname, f, loader=_Loader(fullname, f),
                submodule_search_locations=[base])
        f = base + ".py"
        if os.path.exists(f):
            return importlib.util.spec_from_file_location(
                fullname, f, loader=_Loader(fullname, f))
        return None


def install():
    global _installed
    if _installed:
        return
    for m in list(sys.modules):
        if m == PKG or m.startswith(PKG + "."):
            del sys.modules[m]
    sys.meta_path.insert(0, _Finder())
    _installed = True


def load():
    """-> namespace with the instrumented modules"""
    install()
    import importlib
    mods = {}
    for n in ("data", "parsers", "dumpers", "parser_spec", "timezone",
              "exceptions", "datetimeoper", "main"):
        mods[n] = importlib.import_module(PKG + "." + n)
    for m in mods.values():
        assert getattr(m, "__symx_marker__", False), m
        assert os.path.realpath(m.__file__).startswith(os.path.realpath(REPO)), m.__file__
    return mods


def source_files():
    d = os.path.join(REPO, "metomi", "isodatetime")
    return sorted(os.path.join(d, f) for f in os.listdir(d) if f.endswith(".py"))
