"""vcheck driver: run one property's jobs on a process pool, replay every
candidate counterexample against the pristine package in a fresh process,
apply the known-findings filter, write evidence, print the verdict."""
import hashlib
import importlib
import json
import multiprocessing as mp
import os
import subprocess
import sys
import time

VERIF = os.path.dirname(os.path.dirname(os.path.abspath(__file__)))
REPO = os.environ.get("VERIF_REPO", "/repo")
PY = sys.executable
EXIT_HARNESS = 3


def _pool_init():
    sys.setrecursionlimit(10000)


def _run(spec):
    from symx import runner
    return runner.run_job(spec)


def translator_validation():
    """Run the repository's own pinned tests through the instrumented loader
    with every shim in concrete mode (validates the AST rewrite and shims)."""
    t0 = time.time()
    p = subprocess.run([PY, "-m", "symx.selftest_loader"], cwd=VERIF,
                       capture_output=True, text=True, timeout=900)
    tail = (p.stdout + p.stderr).strip().splitlines()[-3:]
    return {"ok": p.returncode == 0, "wall_s": round(time.time() - t0, 1),
            "summary": " | ".join(tail)}


def string_validation():
    """differential validation of the regex interpreter / formatting / str
    methods of the string layer against CPython (concrete mode)"""
    t0 = time.time()
    p = subprocess.run([PY, "-m", "symx.validate_strs"], cwd=VERIF, capture_output=True, text=True, timeout=900,
                       env=dict(os.environ, VERIF_STRS_LIMIT="700"))
    tail = (p.stdout + p.stderr).strip().splitlines()[-2:]
    return {"ok": p.returncode == 0, "wall_s": round(time.time() - t0, 1), "summary": " | ".join(tail)}


def source_digest():
    h = hashlib.sha256()
    d = os.path.join(REPO, "metomi", "isodatetime")
    for f in sorted(os.listdir(d)):
        if f.endswith(".py"):
            h.update(f.encode())
            with open(os.path.join(d, f), "rb") as fh:
                h.update(fh.read())
    return h.hexdigest()[:16]


def replay_case(prop, case, keep=None):
    """fresh interpreter, pristine package -> (reproduced, detail)"""
    rdir = os.environ.get("VERIF_REPLAY_DIR") or os.path.join(VERIF, "replays")
    os.makedirs(rdir, exist_ok=True)
    blob = json.dumps({"property": prop, "case": case}, sort_keys=True)
    name = "%s_%s.json" % (prop, hashlib.sha1(blob.encode()).hexdigest()[:10])
    path = os.path.join(rdir, name)
    with open(path, "w") as fh:
        fh.write(blob + "\n")
    p = subprocess.run([PY, os.path.join(VERIF, "replay.py"), path],
                       capture_output=True, text=True, timeout=600, cwd=VERIF)
    out = p.stdout.strip().splitlines()
    last = out[-1] if out else ""
    if p.returncode == 1 and last.startswith("REPRODUCED"):
        return True, last, path
    if p.returncode == 0:
        if not keep:
            try:
                os.remove(path)
            except OSError:
                pass
        return False, last, path
    return None, "replay crashed (rc=%s): %s %s" % (p.returncode, last, p.stderr[-400:]), path


def load_known():
    f = os.path.join(VERIF, "known_findings.jsonl")
    out = []
    if os.path.exists(f):
        for line in open(f):
            line = line.strip()
            if line and not line.startswith("#"):
                out.append(json.loads(line))
    return out


def main(argv=None):
    argv = list(sys.argv[1:] if argv is None else argv)
    if not argv:
        print("usage: vcheck <PROPERTY-ID> [--tier quick|thorough] | vcheck replay <file>")
        return 2
    if argv[0] == "replay":
        p = subprocess.run([PY, os.path.join(VERIF, "replay.py"), argv[1]], cwd=VERIF)
        return p.returncode
    prop = argv[0].upper()
    tier = os.environ.get("VERIF_TIER", "quick")
    if "--tier" in argv:
        tier = argv[argv.index("--tier") + 1]
    only = None
    if "--only" in argv:
        only = argv[argv.index("--only") + 1]
    seed = int(os.environ.get("VERIF_SEED", "0") or 0)
    workers = int(os.environ.get("VERIF_WORKERS", "16"))
    t0 = time.time()
    sys.path.insert(0, VERIF)
    mod = importlib.import_module("checks." + prop.lower())
    jobs = mod.jobs(tier)
    if tier == "thorough":
        # the thorough tier contains the quick tier's jobs verbatim (they run first) plus its own
        qjobs = mod.jobs("quick")
        qk = {repr(j) for j in qjobs}
        jobs = qjobs + [j for j in jobs if repr(j) not in qk]
    if only:
        jobs = [j for j in jobs if only in j[0] or only in repr(j[1])]
    # thorough tier: a wall-time budget for the whole tier.  Jobs not started when it runs out are NOT run and are
    # listed as such in the evidence (the verdict is about what was explored); the quick tier's jobs go first, so
    # the thorough tier always contains the quick one.  A job that was started is never cut short by this budget.
    tier_budget = float(os.environ.get("VERIF_TIER_BUDGET", "480" if tier == "thorough" else "0") or 0)
    deadline = (t0 + tier_budget) if tier_budget > 0 else None
    specs = [(prop.lower(), fn, kw, tier, seed, deadline) for fn, kw in jobs]
    # heavier jobs first
    order = list(range(len(specs)))
    if seed:
        import random
        random.Random(seed).shuffle(order)
    weights = getattr(mod, "job_weight", None)
    if weights:
        order.sort(key=lambda i: -weights(jobs[i][0], jobs[i][1]))
    if tier == "thorough" and not only:
        qkeys = {repr(j) for j in mod.jobs("quick")}
        order.sort(key=lambda i: 0 if repr(jobs[i]) in qkeys else 1)     # stable: weights kept inside each group
    specs = [specs[i] for i in order]

    results = []
    ctx = mp.get_context("fork")
    with ctx.Pool(min(workers, max(1, len(specs))), initializer=_pool_init,
                  maxtasksperchild=None) as pool:
        tv_async = pool.apply_async(translator_validation)
        sv_async = pool.apply_async(string_validation) if getattr(mod, "NEEDS_STRING_VALIDATION", False) else None
        for out in pool.imap_unordered(_run, specs, chunksize=1):
            results.extend(out)
            if os.environ.get("VERIF_VERBOSE"):
                for r in out:
                    print("  job %-60s paths %6s obl %6s/%-6s %6.1fs %s" % (
                        r.get("name"), r.get("paths"), r.get("discharged"),
                        r.get("obligations"), r.get("wall_s", 0),
                        "ERROR" if r.get("error") else ""), flush=True)
        tv = tv_async.get()
        sv = sv_async.get() if sv_async is not None else None

    skipped = [r for r in results if r.get("skipped")]
    results = [r for r in results if not r.get("skipped")]
    from symx.harness import merge
    tot = merge(results)
    harness_errors = [(r.get("name"), r["error"]) for r in results if r.get("error")]
    if not tv["ok"]:
        harness_errors.append(("translator-validation", tv["summary"]))
    if sv is not None and not sv["ok"]:
        harness_errors.append(("string-layer validation", sv["summary"]))

    # ---- replay candidates -------------------------------------------------
    known = [k for k in load_known() if k.get("property") == prop]
    open_known = [k for k in known if k.get("status") == "open"]
    kf = importlib.import_module("known_findings") if os.path.exists(
        os.path.join(VERIF, "known_findings.py")) else None
    violations = []
    known_hits = {}
    nonrepro = []
    seen_cases = set()
    cands = []
    for r in results:
        for c in r.get("candidates", []):
            key = json.dumps(c["case"], sort_keys=True, default=str)
            if key in seen_cases:
                continue
            seen_cases.add(key)
            cands.append((r.get("name"), c))
    # concretised paths are re-run concretely too (a real failure there is
    # still found), but they are never counted as discharged
    concretised = []
    for r in results:
        for c in r.get("concretised", []):
            concretised.append((r.get("name"), c))
    # one candidate per job first (so that no job's finding is starved by another job's many candidates)
    firsts, rest, seen_jobs = [], [], set()
    for name, c in cands:
        if name not in seen_jobs:
            seen_jobs.add(name)
            firsts.append((name, c))
        else:
            rest.append((name, c))
    cands = firsts + rest
    for name, c in cands[:max(60, len(firsts))]:
        ok, detail, path = replay_case(prop, c["case"], keep=True)
        if ok is None:
            harness_errors.append((name, detail))
        elif ok:
            hit = None
            if kf is not None:
                for k in open_known:
                    if kf.matches(k, c["case"]):
                        hit = k
                        break
            if hit is not None:
                known_hits.setdefault(hit["id"], (hit, detail))
                try:
                    os.remove(path)
                except OSError:
                    pass
            else:
                violations.append({"job": name, "label": c["label"], "detail": detail,
                                   "replay": path, "case": c["case"]})
        else:
            nonrepro.append({"job": name, "label": c["label"], "detail": detail, "case": c["case"]})
    conc_viol = 0
    for name, c in concretised[:20]:
        ok, detail, path = replay_case(prop, c["case"], keep=True)
        if ok:
            hit = None
            if kf is not None:
                for k in open_known:
                    if kf.matches(k, c["case"]):
                        hit = k
                        break
            if hit is not None:
                known_hits.setdefault(hit["id"], (hit, detail))
            else:
                violations.append({"job": name, "label": "concretised path", "detail": detail,
                                   "replay": path, "case": c["case"]})
                conc_viol += 1
    if nonrepro:
        harness_errors.append(("non-reproducing counterexample(s)",
                               json.dumps(nonrepro[:3], default=str)[:1500]))

    # every listed open finding must still reproduce from its exemplar
    for k in open_known:
        if k["id"] in known_hits:
            continue
        ok, detail, path = replay_case(prop, k["exemplar"])
        if ok:
            known_hits[k["id"]] = (k, detail)

    wall = time.time() - t0
    # ---- evidence ------------------------------------------------------------
    samples = []
    for r in results:
        for s in r.get("samples", [])[:2]:
            if len(samples) < 12:
                samples.append({"job": r.get("name"), "inputs": s})
    scen = {}
    for r in results:
        for k, v in r.get("scenarios", {}).items():
            scen.setdefault(k, v)
    required = getattr(mod, "REQUIRED_SCENARIOS", {}).get(tier, getattr(mod, "REQUIRED_SCENARIOS", {}).get("all", []))
    missing = [s for s in required if s not in scen]
    if missing:
        harness_errors.append(("vacuity guard", "scenarios never reached: %s" % missing))
    info = getattr(mod, "INFO", {})
    ev = {
        "property_id": prop, "tier": tier, "seed": seed, "level": "other",
        "wall_s": round(wall, 2), "violations": len(violations),
        "coverage": {
            "explanation": info.get("explanation", "") + (
                " Bounded symbolic (concolic) execution of the real functions loaded from /repo's working tree; "
                "z3 decides every branch flip and every end-of-path obligation; sat models are replayed "
                "against the pristine package in a fresh process before anything is reported."),
            "obligations": tot["obligations"], "discharged": tot["discharged"],
            "discharged_by_path_split": tot["trivially"],
            "unknown": tot["unknown"] + tot["flip_unknown"],
            "evaluations": tot["paths"], "distinct_nontrivial": tot["nontrivial_paths"],
            "rule": "one evaluation = one feasible execution path of the real code (an equivalence class of inputs "
                    "fixed by the branch decisions taken on symbolic values); non-trivial = the path constraint "
                    "contains at least one decision on an input beyond its declared range",
            "exhaustive": bool(tot["complete"] and not tot["unknown"] and not harness_errors and not skipped),
            "paths_aborted_by_assume": tot["aborts"], "paths_concretised": tot["unsupported"],
            "paths_cut_by_limit": tot["cut"], "paths_raising": tot["exc_paths"],
            "solver": "z3 %s" % _z3_version(), "solver_queries": tot["solver_queries"],
            "cvc5_cross_check": {"sampled_obligations_agree": tot.get("cvc5_agree", 0), "disagree": tot.get("cvc5_disagree", 0),
                                 "inconclusive_or_timeout": tot.get("cvc5_inconclusive", 0),
                                 "note": "a sample of discharged end-of-path queries per job is exported (SMT-LIB2) and re-decided by cvc5 1.4; a disagreement is a harness error"},
            "solver_time_s": tot["solver_s"], "branch_decisions": tot["branches"],
            "folded_by_interval_or_identity": tot["folds"], "index_realisations": tot["realisations"],
            "functions_encoded": dict(sorted(tot["entered"].items(), key=lambda kv: -kv[1])[:60]),
            "bounds": info.get("bounds", {}).get(tier, info.get("bounds", {})),
            "outside_the_claim": info.get("outside", []),
            "jobs": [{"job": r.get("name"), "paths": r.get("paths"), "obligations": r.get("obligations"),
                      "discharged": r.get("discharged"), "complete": r.get("complete"),
                      "wall_s": r.get("wall_s"), "bounds": r.get("bounds")} for r in results],
            "jobs_not_run_tier_budget": {"budget_s": tier_budget, "count": len(skipped), "jobs": [r.get("job") for r in skipped][:400]},
            "scenario_witnesses": scen, "samples": samples or [{"note": "no samples recorded"}],
            "repo_source_sha256_16": source_digest(),
            "translator_validation": tv, "string_layer_validation": sv,
            "candidates_replayed": len(cands), "non_reproducing": len(nonrepro),
            "known_findings_matched": sorted(known_hits),
            "harness_errors": [list(map(str, e)) for e in harness_errors][:10],
            "violations": [{k: v[k] for k in ("job", "label", "detail", "replay")} for v in violations][:10],
        },
        "assumptions": info.get("assumptions", []) + COMMON_ASSUMPTIONS,
    }
    evdir = os.environ.get("VERIF_EVIDENCE_DIR") or os.path.join(VERIF, "evidence")
    os.makedirs(evdir, exist_ok=True)
    with open(os.path.join(evdir, prop + ".json"), "w") as fh:
        json.dump(ev, fh, indent=1, default=str)
        fh.write("\n")

    # ---- verdict -------------------------------------------------------------
    print("%s tier=%s jobs=%d paths=%d obligations=%d discharged=%d unknown=%d solver_queries=%d "
          "solver_s=%.1f wall_s=%.1f" % (prop, tier, len(results), tot["paths"], tot["obligations"],
                                         tot["discharged"], tot["unknown"] + tot["flip_unknown"],
                                         tot["solver_queries"], tot["solver_s"], wall))
    if skipped:
        print("NOTE: tier budget of %d s reached: %d of %d job(s) were not started and are listed in the evidence as not run" % (
            tier_budget, len(skipped), len(skipped) + len(results)))
    for kid, (k, detail) in sorted(known_hits.items()):
        print("KNOWN-FINDING: property=%s %s [%s]" % (prop, k["what"], kid))
    for v in violations:
        print("  violated: %s :: %s :: %s" % (v["job"], v["label"], v["detail"]))
        print("VIOLATION property=%s replay=%s" % (prop, v["replay"]))
    if violations:
        return 1
    if harness_errors:
        for n, e in harness_errors[:10]:
            print("HARNESS-ERROR %s: %s" % (n, str(e)[:2000]))
        return EXIT_HARNESS
    incomplete = [r.get("name") for r in results if not r.get("complete", False)]
    if incomplete or tot["unknown"] or tot["flip_unknown"]:
        print("NOTE: %d job(s) incomplete / %d unknown: not counted as discharged (see evidence)" % (
            len(incomplete), tot["unknown"] + tot["flip_unknown"]))
        if os.environ.get("VERIF_STRICT", "1") == "1":
            print("HARNESS-ERROR incomplete exploration on: %s" % incomplete[:8])
            return EXIT_HARNESS
    print("OK property=%s held on everything explored (bounded; see evidence/%s.json)" % (prop, prop))
    return 0


COMMON_ASSUMPTIONS = [
    "CPython 3.12 semantics; z3's verdicts (unsat/sat) are trusted, unknown is never counted as discharged",
    "symx proxies/shims are faithful on the modelled fragment (validated on every run by executing the repository's own test-suite through the instrumented loader in concrete mode)",
    "refmodel.py is the oracle (cross-checked against datetime for the Gregorian calendar at start-up)",
    "all float-typed quantities are integral and below 2**53 inside the stated bounds, so IEEE arithmetic on them is exact",
    "exception message text is not interpreted by the code under test",
]


def _z3_version():
    try:
        import z3
        return z3.get_version_string()
    except Exception:
        return "?"


if __name__ == "__main__":
    try:
        rc = main()
    except SystemExit:
        raise
    except BaseException:
        # an internal failure of the driver is a harness error (3), never a verdict (0 / 1)
        import traceback
        traceback.print_exc()
        print("HARNESS-ERROR driver crashed; nothing is claimed")
        rc = 3
    sys.exit(rc)
