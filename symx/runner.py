"""symx.runner -- worker-side job execution (one process per worker; the
instrumented package is loaded once per process from /repo's working tree)."""
import importlib
import os
import sys
import time
import traceback

_CTX = None


class Ctx:
    pins = None

    def __init__(self, tier, seed):
        from . import loader
        mods = loader.load()
        self.mods = mods
        self.data = mods["data"]
        self.parsers = mods["parsers"]
        self.dumpers = mods["dumpers"]
        self.parser_spec = mods["parser_spec"]
        self.timezone = mods["timezone"]
        self.exceptions = mods["exceptions"]
        self.datetimeoper = mods["datetimeoper"]
        self.main = mods["main"]
        self.tier = tier
        self.seed = seed


def get_ctx(tier="quick", seed=0):
    global _CTX
    if _CTX is None:
        _CTX = Ctx(tier, seed)
    _CTX.tier = tier
    _CTX.seed = seed
    return _CTX


def run_job(spec):
    """spec = (module_name, fn_name, kwargs, tier, seed) -> result dict"""
    modname, fn, kwargs, tier, seed = spec[:5]
    deadline = spec[5] if len(spec) > 5 else None
    t0 = time.time()
    if deadline and t0 > deadline:
        return [{"name": "%s.%s" % (modname, fn), "skipped": True,
                 "job": "%s.%s(%s)" % (modname, fn, ", ".join("%s=%r" % kv for kv in sorted(kwargs.items())))}]
    try:
        ctx = get_ctx(tier, seed)
        mod = importlib.import_module("checks." + modname)
        # every job starts from the working tree's own functions: a contract (functional summary) installed
        # by the previous job of this worker must not leak into a job that does not ask for it
        c03 = importlib.import_module("checks.c03")
        c03.uninstall_range_summary(ctx.data)
        c03.uninstall_weeks_summary(ctx.data)
        from . import core as _core
        _core.LONG_FRACTIONS[0] = False
        res = getattr(mod, fn)(ctx, **kwargs)
        if isinstance(res, list):
            out = res
        else:
            out = [res]
        for r in out:
            r["job"] = "%s.%s(%s)" % (modname, fn, ", ".join(
                "%s=%r" % kv for kv in sorted(kwargs.items())))
        return out
    except BaseException:
        return [{"name": "%s.%s" % (modname, fn), "job": "%s.%s(%r)" % (modname, fn, kwargs),
                 "error": "job crashed:\n" + traceback.format_exc(),
                 "wall_s": time.time() - t0, "candidates": [], "paths": 0,
                 "obligations": 0, "discharged": 0, "complete": False}]
    finally:
        # leave the calendar in its default mode for the next job
        try:
            _CTX.data.CALENDAR.set_mode("gregorian")
        except Exception:
            pass
