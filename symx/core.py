"""symx.core -- concolic execution of real Python integer code over z3.

Proxies (`SymInt`, `SymBool`) carry a linear normal form over named atoms and a
concrete shadow value.  Branching on a proxy records a decision on the engine's
incremental solver stack; `Engine.explore` re-executes the program depth-first,
flipping the deepest unflipped decision until every feasible path is covered.

Soundness notes (also in DESIGN.md section 3):
 * every fold made without a solver call is justified by interval arithmetic
   over the *declared* input ranges tightened by the decisions already taken on
   the current path, or by an exact identity of floor division;
 * a z3 `unknown` is never counted as `unsat`;
 * engine control-flow exceptions derive from BaseException so the code under
   test cannot swallow them with `except Exception`.
"""
import builtins
import math
import time
from math import gcd

import z3

_int = builtins.int
_float = builtins.float
_isinstance = builtins.isinstance
_abs = builtins.abs
_range = builtins.range
_str = builtins.str
_hash = builtins.hash
_len = builtins.len


class PathAbort(BaseException):
    """An `assume` failed on this path (not a finished path)."""


class Unsupported(BaseException):
    """Operation outside the modelled fragment: the path is concretised."""


class Diverged(BaseException):
    """Re-execution did not follow the recorded decisions (harness error)."""


class PathLimit(BaseException):
    """Per-path decision limit hit (unwinding assertion)."""


ENG = None          # the active engine (one per process at a time)
MERGE = [False]     # oracle-side evaluation: merge (ite atoms) instead of forking


def set_engine(e):
    global ENG
    ENG = e


class Engine:
    def __init__(self, timeout_ms=20000, fork_span=16, fork_span7=1,
                 max_decisions=20000, seed=0):
        self.timeout_ms = timeout_ms
        self.seed = seed
        self.s = self._new_solver()
        self.dec = []        # [key, pol_taken(bool truth of canonical cond), flipped, payload]
        self.pos = 0
        self.model = {}      # input var name -> int
        self.vars = {}       # input var name -> z3 Int
        self.decl = {}       # input var name -> (lo, hi)
        self.pins = {}       # name -> concrete value (job split)
        self.ranges = {}     # name -> (lo, hi) narrower range (job split)
        self.atoms = {}      # opaque atom name -> z3 expr
        self.atom_key = {}   # structural key -> atom name
        self.atom_bounds = {}
        self.atomval = {}    # per path: opaque atom -> concrete value
        self.pb = {}         # per path bounds: name -> [lo, hi]
        self.known = {}      # per path: canonical cond key -> truth
        self.fork_span = fork_span      # fork on quotient when rest spans <= this many multiples
        self.fork_span7 = fork_span7
        self.max_decisions = max_decisions
        self.base_pre = None
        self.nsolve = 0
        self.tsolve = 0.0
        self.nbranch = 0
        self.nfold = 0
        self.nunknown = 0
        self.nrealise = 0
        self.entered = {}
        self.symbolic = True
        self.t0 = time.time()
        self._zcache = {}

    # -- solver -----------------------------------------------------------
    def _new_solver(self):
        s = z3.SolverFor("QF_LIA") if False else z3.Solver()
        s.set("timeout", self.timeout_ms)
        s.set("random_seed", self.seed)
        return s

    def check(self, *extra):
        t = time.time()
        r = self.s.check(*extra)
        self.tsolve += time.time() - t
        self.nsolve += 1
        if r == z3.unknown:
            self.nunknown += 1
        return r

    # -- inputs -----------------------------------------------------------
    def var(self, name, lo=None, hi=None):
        """Declare (first call) / fetch (later calls) an integer input."""
        if name in self.pins:
            return self.pins[name]
        if name not in self.vars:
            if name in self.ranges:
                lo, hi = self.ranges[name]
            if self.dec:
                raise Diverged("input %s declared under pushed frames" % name)
            v = z3.Int(name)
            self.vars[name] = v
            self.decl[name] = (lo, hi)
            if lo is not None:
                self.s.add(v >= lo)
            if hi is not None:
                self.s.add(v <= hi)
            if name not in self.model:
                if lo is not None and hi is not None:
                    self.model[name] = lo if lo > 0 else (hi if hi < 0 else 0)
                else:
                    self.model[name] = lo if lo is not None else (
                        hi if hi is not None else 0)
        return SymInt({name: 1}, 0, self.model[name])

    def z3var(self, name):
        if name in self.pins:
            return z3.IntVal(self.pins[name])
        return self.vars[name]

    def atom_z3(self, name):
        a = self.atoms.get(name)
        if a is None:
            a = self.vars[name]
        return a

    def z3_of(self, lin, c):
        terms = []
        for name, coef in lin.items():
            a = self.atom_z3(name)
            terms.append(a if coef == 1 else coef * a)
        if not terms:
            return z3.IntVal(c)
        e = terms[0] if _len(terms) == 1 else z3.Sum(terms)
        return e + c if c else e

    def val(self, name):
        v = self.model.get(name)
        if v is None:
            v = self.atomval[name]
        return v

    def interval(self, lin, c):
        lo = hi = c
        pb = self.pb
        for name, co in lin.items():
            b = pb.get(name)
            if b is None:
                return None, None
            blo, bhi = b
            if co > 0:
                if lo is not None:
                    lo = None if blo is None else lo + co * blo
                if hi is not None:
                    hi = None if bhi is None else hi + co * bhi
            else:
                if lo is not None:
                    lo = None if bhi is None else lo + co * bhi
                if hi is not None:
                    hi = None if blo is None else hi + co * blo
            if lo is None and hi is None:
                return None, None
        return lo, hi

    def opaque(self, key, mk_z3, value, lo=None, hi=None, isf=False):
        """Name an opaque term (div / mod / ite ...).  `key` is structural."""
        name = self.atom_key.get(key)
        if name is None:
            name = "@%d" % (_len(self.atom_key) + 1)
            self.atom_key[key] = name
            self.atoms[name] = mk_z3()
            self.atom_bounds[name] = (lo, hi)
        self.atomval[name] = value
        if name not in self.pb:
            self.pb[name] = [lo, hi]
        return SymInt({name: 1}, 0, value, isf)

    # -- decisions --------------------------------------------------------
    def cond_z3(self, key):
        z = self._zcache.get(key)
        if z is None:
            op, lin_t, c = key
            lhs = self.z3_of(dict(lin_t), 0)
            z = (lhs == -c) if op == "eq" else (lhs <= -c)
            self._zcache[key] = z
        return z

    def _tighten(self, key, tv):
        op, lin_t, c = key
        if _len(lin_t) != 1 or lin_t[0][1] != 1:
            return
        name = lin_t[0][0]
        b = self.pb.get(name)
        if b is None:
            b = self.pb[name] = [None, None]
        if op == "le":          # x + c <= 0
            if tv:
                if b[1] is None or b[1] > -c:
                    b[1] = -c
            else:
                if b[0] is None or b[0] < -c + 1:
                    b[0] = -c + 1
        else:                   # x + c == 0
            if tv:
                b[0] = b[1] = -c
            else:
                if b[0] is not None and b[0] == -c:
                    b[0] += 1
                if b[1] is not None and b[1] == -c:
                    b[1] -= 1

    def decide(self, key, tv, payload=None):
        """Record / replay the decision `canonical cond(key) has truth tv`."""
        self.nbranch += 1
        k = self.known.get(key)
        if k is not None:
            if k != tv:
                raise Diverged("known condition changed value: %r" % (key,))
            return tv
        if self.pos < _len(self.dec):
            d = self.dec[self.pos]
            if d[0] != key or d[1] != tv:
                raise Diverged("replay mismatch at %d: %r/%r vs %r/%r" % (
                    self.pos, d[0], d[1], key, tv))
        else:
            if _len(self.dec) >= self.max_decisions:
                raise PathLimit("decision limit %d" % self.max_decisions)
            z = self.cond_z3(key)
            self.s.push()
            self.s.add(z if tv else z3.Not(z))
            self.dec.append([key, tv, False, payload])
        self.pos += 1
        self.known[key] = tv
        self._tighten(key, tv)
        return tv

    def assume(self, c):
        if not c:
            raise PathAbort()

    def enter(self, qualname):
        self.entered[qualname] = self.entered.get(qualname, 0) + 1

    # -- exploration ------------------------------------------------------
    def _set_model(self):
        m = self.s.model()
        self.model = {}
        for name, v in self.vars.items():
            self.model[name] = m.eval(v, model_completion=True).as_long()

    def model_of(self, m=None):
        """Concrete values of all inputs (incl. pins) under z3 model m."""
        out = dict(self.pins)
        if m is None:
            out.update(self.model)
            return out
        for name, v in self.vars.items():
            out[name] = m.eval(v, model_completion=True).as_long()
        return out

    def start_path(self):
        self.pos = 0
        self.known = {}
        self.atomval = {}
        self.pb = {n: [lo, hi] for n, (lo, hi) in self.decl.items()}

    def setup(self, declare):
        """declare(eng) creates the inputs and returns a z3 precondition
        (or None).  Must be called before explore()."""
        self.start_path()
        pre = declare(self)
        if pre is not None and not (pre is True):
            self.s.add(pre)
            self.base_pre = pre
        r = self.check()
        if r != z3.sat:
            return False
        self._set_model()
        return True

    def explore(self, fn, on_path, max_paths=None, deadline=None):
        """Run fn(eng) over every feasible path.

        on_path(eng, outcome) is called at the end of each finished path with
        outcome = ("ok", value) | ("exc", exception) | ("unsupported", msg).
        Returns a stats dict.
        """
        st = {"paths": 0, "aborts": 0, "unsupported": 0, "cut": 0,
              "flip_unknown": 0, "complete": True}
        while True:
            self.start_path()
            try:
                try:
                    res = ("ok", fn(self))
                except Exception as exc:        # the code under test raised
                    res = ("exc", exc)
                st["paths"] += 1
                on_path(self, res)
            except PathAbort:
                st["aborts"] += 1
            except Unsupported as exc:
                st["unsupported"] += 1
                st["complete"] = False      # a concretised path is not a discharged path
                st["paths"] += 1
                on_path(self, ("unsupported", _str(exc.args[0]) if exc.args else ""))
            except PathLimit:
                st["cut"] += 1
                st["complete"] = False
            if max_paths and st["paths"] >= max_paths:
                st["complete"] = False
                break
            if deadline and time.time() > deadline:
                st["complete"] = False
                st["deadline"] = True
                break
            if not self._next_path(st):
                break
        while self.dec:
            self.dec.pop()
            self.s.pop()
        return st

    def _next_path(self, st):
        while True:
            while self.dec and self.dec[-1][2]:
                self.dec.pop()
                self.s.pop()
            if not self.dec:
                return False
            key, tv, _, payload = self.dec.pop()
            self.s.pop()
            z = self.cond_z3(key)
            self.s.push()
            self.s.add(z3.Not(z) if tv else z)
            r = self.check()
            if r == z3.sat:
                self._set_model()
                self.dec.append([key, not tv, True, payload])
                return True
            self.s.pop()
            if r == z3.unsat:
                continue
            # unknown: the subtree is NOT covered
            st["flip_unknown"] += 1
            st["complete"] = False
            continue


# ---------------------------------------------------------------------------
# proxies
# ---------------------------------------------------------------------------
def _parts(x):
    """-> (lin, c, v, isf)"""
    if type(x) is SymInt:
        return x.lin, x.c, x.v, x.isf
    if x is True or x is False:
        return {}, _int(x), _int(x), False
    if type(x) is _int or _isinstance(x, _int):
        return {}, _int(x), _int(x), False
    if _isinstance(x, _float):
        if x != x or x in (math.inf, -math.inf) or x != _int(x):
            raise Unsupported("fractional float %r" % (x,))
        return {}, _int(x), _int(x), True
    if type(x) is SymBool:
        return _parts(x.as_int())
    raise Unsupported("cannot lift %s" % type(x).__name__)


def _isnum(x):
    t = type(x)
    return t is SymInt or t is _int or t is _float or t is bool or t is SymBool or _isinstance(x, (_int, _float))


def with_bounds(x, lo, hi):
    """x re-expressed as an atom with the interval [lo, hi].  Only to be called
    right after decisions on the current path that imply lo <= x <= hi (the
    caller's obligation); the atom's z3 term is x itself, so no constraint is
    added or lost."""
    if type(x) is not SymInt:
        return x
    key = ("bnd", tuple(sorted(x.lin.items())), x.c, lo, hi)
    lin, c = x.lin, x.c
    a = ENG.opaque(key, lambda: ENG.z3_of(lin, c), x.v, lo, hi, x.isf)
    name = next(iter(a.lin))
    b = ENG.pb[name]
    b[0] = lo if b[0] is None else max(b[0], lo)
    b[1] = hi if b[1] is None else min(b[1], hi)
    return a


def realise(x):
    """fork on every value of a small-domain symbolic integer"""
    if type(x) is SymInt:
        return x.__index__()
    return x


def _mk(lin, c, v, isf):
    lin = {k: a for k, a in lin.items() if a != 0}
    if not lin:
        return _float(c) if isf else c
    return SymInt(lin, c, v, isf)


class SymBool:
    """A condition `canonical(key) == pol` with concrete truth v."""
    __slots__ = ("key", "pol", "v")

    def __init__(self, key, pol, v):
        self.key = key
        self.pol = pol
        self.v = v

    def __bool__(self):
        tv = self.v if self.pol else (not self.v)     # truth of canonical cond
        ENG.decide(self.key, tv)
        return self.v

    def z3(self):
        z = ENG.cond_z3(self.key)
        return z if self.pol else z3.Not(z)

    def as_int(self):
        return 1 if self.__bool__() else 0

    def __eq__(self, o):
        return bool(self) == bool(o)

    def __ne__(self, o):
        return bool(self) != bool(o)

    def __hash__(self):
        raise Unsupported("hash of symbolic bool")

    def __repr__(self):
        return "SymBool(%s,%s=%s)" % (self.key, self.pol, self.v)


def _canon(lin, c, op):
    """Normalise `lin + c  op  0` to (key, pol) with key = (eq|le, lin_t, c')
    or return a Python bool when it folds syntactically."""
    g = 0
    for a in lin.values():
        g = gcd(g, a)
    if op in ("eq", "ne"):
        if c % g:
            return op == "ne", None
        items = sorted((k, a // g) for k, a in lin.items())
        c = c // g
        if items[0][1] < 0:
            items = [(k, -a) for k, a in items]
            c = -c
        return ("eq", tuple(items), c), (op == "eq")
    # reduce to  e + c <= 0  with polarity
    if op == "lt":
        c, pol = c + 1, True
    elif op == "le":
        pol = True
    elif op == "gt":
        pol = False
    else:  # ge
        c, pol = c + 1, False
    items = sorted(lin.items())
    if items[0][1] < 0:
        # -e2 + c <= 0  <=>  not (e2 - c + 1 <= 0)
        items = [(k, -a) for k, a in items]
        c = -c + 1
        pol = not pol
    if g != 1:
        items = [(k, a // g) for k, a in items]
        c = -((-c) // g)        # ceil(c / g)
    return ("le", tuple(items), c), pol


def _cmp(a, b, op):
    la, ca, va, _ = _parts(a)
    lb, cb, vb, _ = _parts(b)
    if lb:
        lin = dict(la)
        for k, co in lb.items():
            n = lin.get(k, 0) - co
            if n:
                lin[k] = n
            else:
                lin.pop(k, None)
    else:
        lin = la
    c = ca - cb
    if op == "eq":
        v = va == vb
    elif op == "ne":
        v = va != vb
    elif op == "lt":
        v = va < vb
    elif op == "le":
        v = va <= vb
    elif op == "gt":
        v = va > vb
    else:
        v = va >= vb
    if not lin:
        return v
    eng = ENG
    lo, hi = eng.interval(lin, c)
    # e = lin + c in [lo, hi];  decide  e op 0  if the interval settles it
    if op == "eq" or op == "ne":
        if (lo is not None and lo > 0) or (hi is not None and hi < 0):
            eng.nfold += 1
            return op == "ne"
        if lo is not None and lo == hi == 0:
            eng.nfold += 1
            return op == "eq"
    elif op == "lt":
        if hi is not None and hi < 0:
            eng.nfold += 1
            return True
        if lo is not None and lo >= 0:
            eng.nfold += 1
            return False
    elif op == "le":
        if hi is not None and hi <= 0:
            eng.nfold += 1
            return True
        if lo is not None and lo > 0:
            eng.nfold += 1
            return False
    elif op == "gt":
        if lo is not None and lo > 0:
            eng.nfold += 1
            return True
        if hi is not None and hi <= 0:
            eng.nfold += 1
            return False
    else:
        if lo is not None and lo >= 0:
            eng.nfold += 1
            return True
        if hi is not None and hi < 0:
            eng.nfold += 1
            return False
    key, pol = _canon(lin, c, op)
    if pol is None:
        return key
    k = eng.known.get(key)
    if k is not None:
        return k if pol else (not k)
    return SymBool(key, pol, v)


class SymInt:
    """Integer-valued number  sum(coef*atom) + c  (Python type int, or float
    when isf) with concrete shadow value v under the engine's current model."""
    __slots__ = ("lin", "c", "v", "isf")

    def __init__(self, lin, c, v, isf=False):
        self.lin = lin
        self.c = c
        self.v = v
        self.isf = isf

    @property
    def e(self):
        return ENG.z3_of(self.lin, self.c)

    def __add__(self, o):
        if type(o) is SymRatio or not _isnum(o):
            return NotImplemented
        if type(o) is _float and o != _int(o):
            return _frac_ratio(o) + self
        lo, co, vo, fo = _parts(o)
        if not lo:
            return SymInt(self.lin, self.c + co, self.v + vo, self.isf or fo)
        lin = dict(self.lin)
        for k, a in lo.items():
            lin[k] = lin.get(k, 0) + a
        return _mk(lin, self.c + co, self.v + vo, self.isf or fo)

    __radd__ = __add__

    def __sub__(self, o):
        if type(o) is SymRatio or not _isnum(o):
            return NotImplemented
        if type(o) is _float and o != _int(o):
            return -(_frac_ratio(o) - self)
        lo, co, vo, fo = _parts(o)
        if not lo:
            return SymInt(self.lin, self.c - co, self.v - vo, self.isf or fo)
        lin = dict(self.lin)
        for k, a in lo.items():
            lin[k] = lin.get(k, 0) - a
        return _mk(lin, self.c - co, self.v - vo, self.isf or fo)

    def __rsub__(self, o):
        if type(o) is SymRatio or not _isnum(o):
            return NotImplemented
        if type(o) is _float and o != _int(o):
            return _frac_ratio(o) - self
        lo, co, vo, fo = _parts(o)
        lin = dict(lo)
        for k, a in self.lin.items():
            lin[k] = lin.get(k, 0) - a
        return _mk(lin, co - self.c, vo - self.v, self.isf or fo)

    def __mul__(self, o):
        if type(o) is SymRatio or not _isnum(o):
            return NotImplemented
        lo, co, vo, fo = _parts(o)
        if lo:
            # non-linear unless one side is pinned by the path
            l1, h1 = ENG.interval(lo, co)
            if l1 is not None and l1 == h1:
                lo, co = {}, l1
            else:
                l2, h2 = ENG.interval(self.lin, self.c)
                if l2 is not None and l2 == h2:
                    return SymInt(lo, co, vo, fo) * (_float(l2) if self.isf else l2)
                raise Unsupported("non-linear multiplication")
        return _mk({k: a * co for k, a in self.lin.items()}, self.c * co,
                   self.v * co, self.isf or fo)

    __rmul__ = __mul__

    def __neg__(self):
        return SymInt({k: -a for k, a in self.lin.items()}, -self.c, -self.v, self.isf)

    def __pos__(self):
        return self

    def __abs__(self):
        if self >= 0:
            return self
        return -self

    def __int__(self):
        # only reached through C-level int(); module-level int is shimmed
        raise Unsupported("int() of symbolic outside shim")

    def __float__(self):
        raise Unsupported("float() of symbolic outside shim")

    def __round__(self, n=None):
        return SymInt(self.lin, self.c, self.v, False)

    def __floor__(self):
        return SymInt(self.lin, self.c, self.v, False)

    __ceil__ = __floor__
    __trunc__ = __floor__

    def is_integer(self):
        return True

    def _divmod_const(self, o):
        lo_, k, vo, fo = _parts(o)
        if lo_:
            l1, h1 = ENG.interval(lo_, k)
            if l1 is not None and l1 == h1:
                k = l1
            else:
                raise Unsupported("symbolic divisor")
        if k == 0:
            raise ZeroDivisionError("integer division or modulo by zero")
        isf = self.isf or fo
        if k < 0:
            q, r = (-self)._divmod_const(-k)
            return q, -r
        eng = ENG
        qlin = {}
        rlin = {}
        half = k // 2
        for name, a in self.lin.items():
            qa, ra = divmod(a, k)
            if ra > half:           # symmetric remainder keeps the interval small
                ra -= k
                qa += 1
            if qa:
                qlin[name] = qa
            if ra:
                rlin[name] = ra
        qc, rc = divmod(self.c, k)
        if not rlin:
            return _mk(qlin, qc, self.v // k, isf), (_float(rc) if isf else rc)
        restv = rc
        for name, ra in rlin.items():
            restv += ra * eng.val(name)
        lo, hi = eng.interval(rlin, rc)
        if lo is not None and hi is not None:
            span = hi // k - lo // k
            if span == 0:
                qq = lo // k
                eng.nfold += 1
                return (_mk(qlin, qc + qq, self.v // k, isf),
                        _mk(rlin, rc - qq * k, restv - qq * k, isf))
            if MERGE[0] and span <= 64:
                # oracle side: merge instead of fork -- the quotient becomes an
                # ite-sum atom over linear conditions (no div/mod reaches z3)
                qlo, qhi = lo // k, hi // k
                rl_t = tuple(sorted(rlin.items()))

                def mkq():
                    rest = eng.z3_of(rlin, rc)
                    return z3.Sum([z3.If(rest >= j * k, 1, 0) for j in _range(qlo + 1, qhi + 1)]) + qlo
                qa = eng.opaque(("qite", rl_t, rc, k, qlo, qhi), mkq, restv // k, qlo, qhi)
                ra = eng.opaque(("rite", rl_t, rc, k, qlo, qhi),
                                lambda: eng.z3_of(rlin, rc) - k * eng.atom_z3(next(iter(qa.lin))),
                                restv % k, 0, k - 1)
                q = qa + _mk(qlin, qc, (self.v // k) - (restv // k), False)
                if isf:
                    q, ra = _setf(q), _setf(ra)
                return q, ra
            limit = eng.fork_span7 if k == 7 else eng.fork_span
            if span < limit:
                # fork on the quotient by bisection (linear comparisons only)
                qlo, qhi = lo // k, hi // k
                rest = SymInt(rlin, rc, restv, False)
                while qlo < qhi:
                    mid = (qlo + qhi + 1) // 2
                    if rest >= mid * k:
                        qlo = mid
                    else:
                        qhi = mid - 1
                qq = qlo
                return (_mk(qlin, qc + qq, self.v // k, isf),
                        _mk(rlin, rc - qq * k, restv - qq * k, isf))
        rl_t = tuple(sorted(rlin.items()))
        qd = eng.opaque(("div", rl_t, rc, k),
                        lambda: eng.z3_of(rlin, rc) / k, restv // k,
                        None if lo is None else lo // k,
                        None if hi is None else hi // k)
        rm = eng.opaque(("mod", rl_t, rc, k),
                        lambda: eng.z3_of(rlin, rc) % k, restv % k, 0, k - 1)
        q = qd + _mk(qlin, qc, (self.v // k) - (restv // k), False)
        if isf:
            q = _setf(q)
            rm = _setf(rm)
        return q, rm

    def __floordiv__(self, o):
        return self._divmod_const(o)[0]

    def __mod__(self, o):
        return self._divmod_const(o)[1]

    def __divmod__(self, o):
        return self._divmod_const(o)

    def __rfloordiv__(self, o):
        raise Unsupported("division by symbolic")

    def __rmod__(self, o):
        if _isinstance(o, _str):
            return symx_mod(o, self)
        raise Unsupported("modulo by symbolic")

    def __rdivmod__(self, o):
        raise Unsupported("divmod by symbolic")

    def __truediv__(self, o):
        return ENG_truediv(self, o)

    def __rtruediv__(self, o):
        raise Unsupported("true division by symbolic")

    def __pow__(self, o):
        raise Unsupported("pow")

    def __eq__(self, o):
        if o is None or _isinstance(o, (_str, tuple, list, dict)):
            return False
        if type(o) is SymRatio:
            return NotImplemented
        try:
            return _cmp(self, o, "eq")
        except Unsupported:
            if _isinstance(o, (_int, _float, SymInt, SymBool)):
                raise
            return NotImplemented

    def __ne__(self, o):
        if o is None or _isinstance(o, (_str, tuple, list, dict)):
            return True
        if type(o) is SymRatio:
            return NotImplemented
        try:
            return _cmp(self, o, "ne")
        except Unsupported:
            if _isinstance(o, (_int, _float, SymInt, SymBool)):
                raise
            return NotImplemented

    def __lt__(self, o):
        if type(o) is SymRatio:
            return NotImplemented
        return _cmp(self, o, "lt")

    def __le__(self, o):
        if type(o) is SymRatio:
            return NotImplemented
        return _cmp(self, o, "le")

    def __gt__(self, o):
        if type(o) is SymRatio:
            return NotImplemented
        return _cmp(self, o, "gt")

    def __ge__(self, o):
        if type(o) is SymRatio:
            return NotImplemented
        return _cmp(self, o, "ge")

    def __bool__(self):
        return bool(_cmp(self, 0, "ne"))

    def __index__(self):
        """Realise: enumerate the values one at a time (x == v ? ...)."""
        eng = ENG
        eng.nrealise += 1
        while True:
            pv = self.v
            if eng.pos < _len(eng.dec) and eng.dec[eng.pos][3] is not None:
                pv = eng.dec[eng.pos][3]
            b = _cmp(self, pv, "eq")
            if b is True:
                return pv
            if b is False:
                if pv == self.v:
                    raise Diverged("index fold contradicts shadow")
                continue
            tv = b.v if b.pol else (not b.v)
            eng.decide(b.key, tv, payload=pv)
            if b.v:
                return pv

    def __hash__(self):
        raise Unsupported("hash of symbolic value")

    def __repr__(self):
        return "Sym<%s%s=%s%s>" % (
            "+".join("%s*%s" % (a, k) for k, a in self.lin.items()),
            "%+d" % self.c if self.c else "", self.v, ",f" if self.isf else "")

    def __str__(self):
        raise Unsupported("str() of symbolic value outside shim")

    def __format__(self, spec):
        return "<sym>"


def ENG_truediv(a, o):
    """a / o for integral a and a constant integral o: exact when divisible,
    otherwise an exact rational proxy (float-typed in Python terms)."""
    lo_, k, vo, fo = _parts(o)
    if lo_ or k == 0:
        raise Unsupported("true division by a symbolic or zero divisor")
    if k < 0:
        a, k = -a, -k
    for co in a.lin.values():
        if co % k:
            return SymRatio(a, k)
    if a.c % k:
        return SymRatio(a, k)
    return SymInt({n: co // k for n, co in a.lin.items()}, a.c // k, a.v // k, True)


class _Rescale(Exception):
    pass


class SymRatio:
    """num / den (den > 0 constant): the value of an int/int true division.
    Sound for |num| < 2**52 / den (the double nearest to num/den then has the
    same floor, trunc and ordering against integers as the exact rational)."""
    __slots__ = ("num", "den")
    isf = True

    def __init__(self, num, den):
        self.num = num
        self.den = den

    @property
    def v(self):
        return conc(self.num) / self.den

    def trunc(self):
        n = self.num
        if n >= 0:
            return n // self.den
        return -((-n) // self.den)

    def __int__(self):
        if type(self.num) is SymInt:
            raise Unsupported("int() of symbolic ratio outside shim")
        return _int(self.num / self.den)

    def __float__(self):
        if type(self.num) is SymInt:
            raise Unsupported("float() of symbolic ratio outside shim")
        return self.num / self.den

    def __floor__(self):
        return self.num // self.den

    def __abs__(self):
        return SymRatio(abs(self.num), self.den)

    def __neg__(self):
        return SymRatio(-self.num, self.den)

    def _other(self, o):
        """o scaled to this denominator (exact), or Unsupported"""
        if type(o) is SymRatio:
            if o.den == self.den:
                return o.num
            if self.den % o.den == 0:
                return o.num * (self.den // o.den)
            raise Unsupported("ratio arithmetic with incompatible denominators")
        if type(o) is _float and o != _int(o):
            n, d = o.as_integer_ratio()
            if self.den % d == 0:
                return n * (self.den // d)
            raise _Rescale(d)
        lo_, c, v, f = _parts(o)
        return (SymInt(lo_, c, v, False) if lo_ else c) * self.den

    def _cmp(self, o, op):
        import operator
        fn = getattr(operator, op)
        try:
            return fn(self.num, self._other(o))
        except _Rescale as r:
            d = r.args[0]
            n2 = o.as_integer_ratio()[0]
            # num/den op n2/d  <=>  num*d op n2*den   (den, d > 0)
            return fn(self.num * d, n2 * self.den)

    def _common(self, o):
        """(self_num, other_num, den) over a common denominator (exact)"""
        try:
            return self.num, self._other(o), self.den
        except (_Rescale, Unsupported):
            if type(o) is SymRatio:
                od, on = o.den, o.num
            elif type(o) is _float and o != _int(o):
                on, od = o.as_integer_ratio()
            else:
                raise
            g = math.gcd(self.den, od)
            den = self.den // g * od
            if den > (2 ** 100 if LONG_FRACTIONS[0] else 2 ** 40):
                raise Unsupported("ratio arithmetic: common denominator too large")
            return self.num * (den // self.den), on * (den // od), den

    def __add__(self, o):
        a, b, den = self._common(o)
        return _ratio(a + b, den)

    __radd__ = __add__

    def __sub__(self, o):
        a, b, den = self._common(o)
        return _ratio(a - b, den)

    def __rsub__(self, o):
        a, b, den = self._common(o)
        return _ratio(b - a, den)

    def __divmod__(self, o):
        """divmod(num/den, k) for a constant integral k > 0: (floor quotient, remainder), both float-typed"""
        lo_, k, vo, fo = _parts(o)
        if lo_ or k <= 0:
            raise Unsupported("divmod of a ratio by a symbolic or non-positive divisor")
        q = self.num // (self.den * k)
        r = _ratio(self.num - q * (self.den * k), self.den)
        if type(q) is SymInt:
            q = SymInt(q.lin, q.c, q.v, True)
        else:
            q = _float(q)
        return q, r

    def __floordiv__(self, o):
        return self.__divmod__(o)[0]

    def __mod__(self, o):
        return self.__divmod__(o)[1]

    def __mul__(self, o):
        lo_, c, v, f = _parts(o)
        if lo_:
            raise Unsupported("non-linear ratio multiplication")
        return _ratio(self.num * c, self.den)

    __rmul__ = __mul__

    def __truediv__(self, o):
        lo_, c, v, f = _parts(o)
        if lo_ or c <= 0:
            raise Unsupported("ratio division")
        return SymRatio(self.num, self.den * c)

    def __eq__(self, o):
        if o is None or _isinstance(o, _str):
            return False
        return self.num == self._other(o)

    def __ne__(self, o):
        if o is None or _isinstance(o, _str):
            return True
        return self.num != self._other(o)

    def __lt__(self, o):
        return self._cmp(o, "lt")

    def __le__(self, o):
        return self._cmp(o, "le")

    def __gt__(self, o):
        return self._cmp(o, "gt")

    def __ge__(self, o):
        return self._cmp(o, "ge")

    def __bool__(self):
        return bool(self.num != 0)

    def is_integer(self):
        return bool(self.num % self.den == 0)

    def __hash__(self):
        raise Unsupported("hash of symbolic ratio")

    def __repr__(self):
        return "SymRatio(%r/%d)" % (self.num, self.den)


LONG_FRACTIONS = [False]


def _frac_ratio(x):
    """a fractional double as an exact rational proxy (den a power of two <= 2**30)"""
    n, d = x.as_integer_ratio()
    if d > 2 ** 30:
        # a decimal fraction such as 0.000001: its double is still an exact rational, but sums with it are
        # rounded by the real code and exact here.  Only harnesses that state this assumption switch it on
        # (values stay far below 2**52 * ulp, so floor / trunc / comparisons against integers agree).
        if LONG_FRACTIONS[0] and d <= 2 ** 90:
            return SymRatio(n, d)
        raise Unsupported("float with a long binary fraction: %r" % (x,))
    return SymRatio(n, d)


def _ratio(num, den):
    if type(num) is not SymInt:
        return num / den
    for co in num.lin.values():
        if co % den:
            return SymRatio(num, den)
    if num.c % den:
        return SymRatio(num, den)
    return SymInt({n: co // den for n, co in num.lin.items()}, num.c // den, num.v // den, True)


class MBool:
    """a merged (unforked) boolean: z3 formula + concrete truth"""
    __slots__ = ("z", "v")

    def __init__(self, z, v):
        self.z = z
        self.v = v

    def __bool__(self):
        raise Unsupported("branch on a merged boolean")


def zbool(c):
    """-> (z3 Bool, concrete truth) of a python bool / SymBool / MBool"""
    if type(c) is SymBool:
        return c.z3(), c.v
    if type(c) is MBool:
        return c.z, c.v
    return z3.BoolVal(bool(c)), bool(c)


class MOps:
    """refmodel backend over proxies that never forks: booleans are merged
    into z3 formulas, ite becomes an opaque atom, div/mod use the exact
    identities with ite-sum quotients (see SymInt._divmod_const)."""
    name = "merge"
    true = True
    false = False

    @staticmethod
    def const(v):
        return v

    @staticmethod
    def div(a, k):
        if type(a) is not SymInt:
            return a // k
        MERGE[0] = True
        try:
            return a // k
        finally:
            MERGE[0] = False

    @staticmethod
    def mod(a, k):
        if type(a) is not SymInt:
            return a % k
        MERGE[0] = True
        try:
            return a % k
        finally:
            MERGE[0] = False

    @staticmethod
    def And(*cs):
        zs, v = [], True
        for c in cs:
            if c is True:
                continue
            if c is False:
                return False
            z, cv = zbool(c)
            zs.append(z)
            v = v and cv
        if not zs:
            return True
        return MBool(z3.And(zs), v)

    @staticmethod
    def Or(*cs):
        zs, v = [], False
        for c in cs:
            if c is False:
                continue
            if c is True:
                return True
            z, cv = zbool(c)
            zs.append(z)
            v = v or cv
        if not zs:
            return False
        return MBool(z3.Or(zs), v)

    @staticmethod
    def Not(c):
        if c is True or c is False:
            return not c
        z, cv = zbool(c)
        return MBool(z3.Not(z), not cv)

    @staticmethod
    def ite(c, a, b):
        if c is True:
            return a
        if c is False:
            return b
        z, cv = zbool(c)
        eng = ENG
        za, zb = lift(a), lift(b)
        va, vb = conc(a), conc(b)
        e = z3.If(z, za, zb)
        la, ha = _ival(a)
        lb, hb = _ival(b)
        lo = None if la is None or lb is None else min(la, lb)
        hi = None if ha is None or hb is None else max(ha, hb)
        return eng.opaque(("ite", e.get_id()), lambda: e, va if cv else vb, lo, hi)


_ite_keep = []


def _ival(x):
    if type(x) is SymInt:
        return ENG.interval(x.lin, x.c)
    v = _int(x)
    return v, v


def _setf(x):
    if type(x) is SymInt:
        return SymInt(x.lin, x.c, x.v, True)
    return _float(x)


def is_sym(x):
    return type(x) is SymInt or type(x) is SymBool


def lift(x):
    """z3 term of a (possibly symbolic) integer-valued number."""
    if type(x) is SymInt:
        return ENG.z3_of(x.lin, x.c)
    if type(x) is SymBool:
        return z3.If(x.z3(), 1, 0)
    if _isinstance(x, _float):
        if x != _int(x):
            raise Unsupported("fractional float in lift")
    return z3.IntVal(_int(x))


def conc(x):
    """concrete shadow value"""
    if type(x) is SymInt:
        return _float(x.v) if x.isf else x.v
    if type(x) is SymBool:
        return x.v
    return x


# ---------------------------------------------------------------------------
# shims (bound into the namespaces of the modules under test)
# ---------------------------------------------------------------------------
class _IntShim:
    """stands for builtins.int inside the code under test"""
    __name__ = "int"

    def __call__(self, x=0, *a):
        if type(x) is SymInt:
            return SymInt(x.lin, x.c, x.v, False)
        if type(x) is SymBool:
            return x.as_int()
        if type(x) is SymRatio:
            return x.trunc()
        if a:
            return _int(x, *a)
        r = sym_int_hook(x)
        if r is not NotImplemented:
            return r
        return _int(x)

    def __repr__(self):
        return "<class 'int'>"

    def __instancecheck__(self, x):
        return sym_isinstance(x, self)


class _FloatShim:
    __name__ = "float"

    def __call__(self, x=0.0):
        if type(x) is SymInt:
            return SymInt(x.lin, x.c, x.v, True)
        if type(x) is SymRatio:
            return x
        r = sym_float_hook(x)
        if r is not NotImplemented:
            return r
        return _float(x)

    def __repr__(self):
        return "<class 'float'>"

    def __instancecheck__(self, x):
        return sym_isinstance(x, self)


def sym_int_hook(x):      # replaced by the string layer
    return NotImplemented


def sym_float_hook(x):
    return NotImplemented


INT = _IntShim()
FLOAT = _FloatShim()


def sym_isinstance(x, t):
    if t is INT or t is _int:
        return _isinstance(x, _int) or (type(x) is SymInt and not x.isf) or type(x) is SymBool
    if t is FLOAT or t is _float:
        return _isinstance(x, _float) or (type(x) is SymInt and x.isf) or type(x) is SymRatio
    if t is STR:
        return _isinstance(x, _str)
    if _isinstance(t, tuple):
        for tt in t:
            if sym_isinstance(x, tt):
                return True
        return False
    return _isinstance(x, t)


def sym_floor(x):
    if type(x) is SymInt:
        return SymInt(x.lin, x.c, x.v, False)
    if type(x) is SymRatio:
        return x.__floor__()
    return math.floor(x)


def sym_abs(x):
    return _abs(x)


class SymRange:
    """stands for a range object inside the code under test: iteration and len()
    as the real range; membership of a symbolic value is decided arithmetically
    (the real range would compare it with every element in turn)"""
    __slots__ = ("start", "stop", "step", "_sym")

    def __init__(self, start, stop, step):
        self.start, self.stop, self.step = start, stop, step
        self._sym = type(start) is SymInt or type(stop) is SymInt

    def _real(self):
        return _range(self.start, self.stop, self.step)

    def __iter__(self):
        if not self._sym:
            return iter(self._real())
        start, stop, step = self.start, self.stop, self.step

        def gen():
            i = start
            if step > 0:
                while i < stop:
                    yield i
                    i = i + step
            else:
                while i > stop:
                    yield i
                    i = i + step
        return gen()

    def __reversed__(self):
        if not self._sym:
            return reversed(self._real())
        return iter(reversed(list(self)))

    def __len__(self):
        if not self._sym:
            return _len(self._real())
        return _len(list(self))

    def __getitem__(self, k):
        if not self._sym:
            return self._real()[k]
        return list(self)[k]

    def __contains__(self, x):
        if not self._sym and not (type(x) is SymInt or type(x) is SymBool or type(x) is SymRatio):
            return x in self._real()
        if type(x) is SymRatio:
            if not x.is_integer():
                return False
            x = x.trunc()
        start, stop, step = self.start, self.stop, self.step
        if step > 0:
            if not (x >= start and x < stop):
                return False
        else:
            if not (x <= start and x > stop):
                return False
        if step in (1, -1):
            return True
        return bool((x - start) % abs(step) == 0)

    def __bool__(self):
        if not self._sym:
            return bool(self._real())
        return bool(self.start < self.stop) if self.step > 0 else bool(self.start > self.stop)

    def __eq__(self, o):
        if _isinstance(o, SymRange):
            o = o._real() if not o._sym else o
        if self._sym or _isinstance(o, SymRange):
            raise Unsupported("comparison of symbolic ranges")
        return self._real() == o

    def __hash__(self):
        if self._sym:
            raise Unsupported("hash of a symbolic range")
        return _hash(self._real())

    def __repr__(self):
        return "range(%r, %r%s)" % (self.start, self.stop, "" if self.step == 1 else ", %r" % (self.step,))

    def index(self, x):
        if self._sym:
            raise Unsupported("index in a symbolic range")
        return self._real().index(x)

    def count(self, x):
        return 1 if x in self else 0


def sym_range(*a):
    if _len(a) == 1:
        start, stop, step = 0, a[0], 1
    elif _len(a) == 2:
        start, stop, step = a[0], a[1], 1
    else:
        start, stop, step = a
    if type(step) is SymInt or step == 0:
        if type(step) is SymInt:
            raise Unsupported("range step")
        return _range(*a)       # raises the real ValueError
    for x in (start, stop, step):
        if type(x) is not SymInt and not _isinstance(x, _int):
            return _range(*a)   # raises the real TypeError
    return SymRange(start, stop, step)


class HashKey:
    """Structural stand-in for hash(): equal keys => equal CPython hashes."""
    __slots__ = ("items",)

    def __init__(self, items):
        self.items = items

    def __repr__(self):
        return "HashKey%r" % (self.items,)


def _hk(x):
    """structural key of x, or None when x holds no symbolic content"""
    if type(x) is SymInt or type(x) is SymBool:
        return HashKey(("num", x))
    if _isinstance(x, tuple):
        ks = [_hk(e) for e in x]
        if all(k is None for k in ks):
            return None
        return HashKey(("tuple", tuple(
            k if k is not None else _const_key(e) for k, e in zip(ks, x))))
    h = getattr(type(x), "__hash__", None)
    if h is not None and (getattr(h, "__module__", "") or "").startswith("metomi."):
        r = h(x)
        if _isinstance(r, HashKey):
            return r
    return None


def _const_key(e):
    if _isinstance(e, (bool, _int, _float)):
        return HashKey(("num", e))
    if e is None or _isinstance(e, _str):
        return HashKey(("const", e))
    if _isinstance(e, tuple):
        return HashKey(("tuple", tuple(_const_key(x) for x in e)))
    return HashKey(("const", _hash(e)))


def sym_hash(x):
    """hash() inside the code under test: the real hash on concrete values,
    a structural key when x holds symbolic numbers"""
    k = _hk(x)
    if k is None:
        return _hash(x)
    return k


def hashkey_eq(a, b):
    """z3 formula: the two structural keys are equal (=> hashes equal).  Either side may also be a real hash
    (an int: the hashed value held no symbolic content); two real hashes are compared as they are, a real hash
    against a structural key cannot be decided here and is reported as unequal (the replay then settles it)."""
    if not _isinstance(a, HashKey) or not _isinstance(b, HashKey):
        if _isinstance(a, HashKey) or _isinstance(b, HashKey):
            return z3.BoolVal(False)
        return z3.BoolVal(a == b)
    ka, kb = a.items, b.items
    if ka[0] != kb[0]:
        return z3.BoolVal(False)
    if ka[0] == "num":
        return lift(ka[1]) == lift(kb[1])
    if ka[0] == "const":
        return z3.BoolVal(ka[1] == kb[1])
    if _len(ka[1]) != _len(kb[1]):
        return z3.BoolVal(False)
    return z3.And([hashkey_eq(x, y) for x, y in zip(ka[1], kb[1])] or [z3.BoolVal(True)])


class OpaqueStr(_str):
    """A string whose text depends on symbolic values and is not modelled.
    Any inspection raises Unsupported; it may only be stored / passed."""

    def __new__(cls, note="<sym>"):
        return _str.__new__(cls, "⟨sym⟩")

    def _no(self, *a, **k):
        raise Unsupported("operation on unmodelled symbolic string")

    __add__ = __radd__ = __mod__ = __rmod__ = __contains__ = __getitem__ = _no
    __iter__ = __len__ = __eq__ = __ne__ = __lt__ = __le__ = __gt__ = __ge__ = _no
    split = rsplit = strip = lstrip = rstrip = replace = startswith = endswith = _no
    join = find = index = upper = lower = splitlines = partition = encode = _no
    isdigit = count = zfill = format = __mul__ = __rmul__ = _no

    def __hash__(self):
        raise Unsupported("hash of symbolic string")

    def __str__(self):
        return self

    def __repr__(self):
        return "OpaqueStr()"


class SymNumStr(OpaqueStr):
    """str(x) of a symbolic integer: the decimal rendering of .num"""

    def __new__(cls, num):
        o = OpaqueStr.__new__(cls)
        o.num = num
        return o

    def __repr__(self):
        return "SymNumStr(%r)" % (self.num,)


class _StrShim:
    __name__ = "str"

    def __call__(self, x="", *a):
        if type(x) is SymInt or type(x) is SymBool:
            r = sym_str_hook(x)
            if r is not NotImplemented:
                return r
            if type(x) is SymInt and not x.isf:
                return SymNumStr(x)
            return OpaqueStr()
        return _str(x, *a)

    def __instancecheck__(self, x):
        return _isinstance(x, _str)

    def __getattr__(self, name):
        return getattr(_str, name)

    def __repr__(self):
        return "<class 'str'>"


def sym_str_hook(x):
    return NotImplemented


STR = _StrShim()


def _has_sym(b):
    if type(b) is SymInt or type(b) is SymBool or type(b) is SymRatio or _isinstance(b, OpaqueStr):
        return True
    if _isinstance(b, tuple):
        for e in b:
            if _has_sym(e):
                return True
    elif _isinstance(b, dict):
        for e in b.values():
            if _has_sym(e):
                return True
    return False


def symx_mod(a, b):
    """`a % b` as rewritten by the loader."""
    if _isinstance(a, _str):
        if type(a) is not _str:         # symbolic / opaque format string
            r = sym_fmt_hook(a, b)
            if r is not NotImplemented:
                return r
            raise Unsupported("formatting with symbolic format string")
        if _has_sym(b):
            r = sym_fmt_hook(a, b)
            if r is not NotImplemented:
                return r
            return OpaqueStr()
        return a % b
    return a % b


def sym_fmt_hook(a, b):
    return NotImplemented


SHIMS = {
    "int": INT, "float": FLOAT, "isinstance": sym_isinstance,
    "floor": sym_floor, "range": sym_range, "hash": sym_hash, "str": STR,
}
