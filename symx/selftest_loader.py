"""Translator validation: run the repository's own test files through the
instrumented loader (AST rewrite + shims, concrete mode).  All must pass."""
import os
import sys

VERIF = os.path.dirname(os.path.dirname(os.path.abspath(__file__)))
sys.path.insert(0, VERIF)


def main():
    from symx import loader
    loader.install()
    import pytest
    repo = loader.REPO
    os.chdir(repo)
    args = ["-q", "-p", "no:cacheprovider", "-x", "--no-header", "-m", "not slow",
            "-o", "addopts=", "--deselect", "metomi/isodatetime/tests/test_main.py::test_pipe",
            os.path.join(repo, "metomi/isodatetime/tests")]
    rc = pytest.main(args)
    import metomi.isodatetime.data as d
    assert getattr(d, "__symx_marker__", False), "tests did not run through the loader"
    return int(rc)


if __name__ == "__main__":
    sys.exit(main())
