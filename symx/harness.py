"""symx.harness -- job runner: explore a harness, discharge its obligations
with z3, collect candidate counterexamples, coverage and statistics."""
import os
import time
import traceback

import z3

from . import core
from .core import Engine, set_engine, Unsupported, Diverged

MAX_CANDIDATES = 4
XCHECK = int(os.environ.get("VERIF_CVC5_SAMPLES", "3"))      # obligations per job re-decided by cvc5


class JobResult(dict):
    pass


def cvc5_recheck(solver, negated_ob, timeout_ms=8000):
    """re-decide `assertions and not ob` with cvc5 (independent solver).
    -> 'unsat' | 'sat' | 'unknown' | 'unavailable'"""
    try:
        import cvc5
    except Exception:
        return "unavailable"
    # export under exactly one push/pop pair: the solver's frame stack mirrors Engine.dec
    solver.push()
    try:
        solver.add(negated_ob)
        txt = "(set-logic ALL)\n" + solver.to_smt2()
    except Exception:
        txt = None
    finally:
        solver.pop()
    if txt is None:
        return "unknown"
    try:
        slv = cvc5.Solver()
        slv.setOption("tlimit-per", str(timeout_ms))
        p = cvc5.InputParser(slv)
        p.setStringInput(cvc5.InputLanguage.SMT_LIB_2_6, txt, "q")
        sm = p.getSymbolManager()
        res = "unknown"
        while True:
            cmd = p.nextCommand()
            if cmd.isNull():
                break
            out = str(cmd.invoke(slv, sm)).strip()
            if out in ("sat", "unsat", "unknown"):
                res = out
        return res
    except Exception:
        return "unknown"


def new_result(name):
    return JobResult(
        name=name, paths=0, aborts=0, unsupported=0, cut=0, flip_unknown=0,
        complete=True, obligations=0, discharged=0, trivially=0, unknown=0,
        nontrivial_paths=0, solver_queries=0, solver_s=0.0, wall_s=0.0, cvc5_agree=0, cvc5_disagree=0, cvc5_inconclusive=0,
        branches=0, folds=0, realisations=0, candidates=[], concretised=[],
        entered={}, scenarios={}, samples=[], error=None, bounds={},
        exc_paths=0, notes=[])


def sym_run(name, make, pre, body, post, case_of, scenarios=None,
            engine_opts=None, max_paths=None, budget_s=None, bounds=None,
            sample_every=0, pins=None, ranges=None, scenarios_z3=None):
    """Explore `body(make(eng))` over all inputs satisfying pre.

    make(eng)            -> inputs (re-created on every path)
    pre(inputs)          -> z3 Bool precondition (or None)
    body(inputs)         -> value  (real code under test; may raise)
    post(inputs, outcome)-> list of (label, z3 Bool | bool) obligations
    case_of(values, inputs)-> JSON-able replay case from concrete input values
    scenarios(inputs)    -> {name: python bool on shadows}  (vacuity witnesses)
    """
    res = new_result(name)
    res["bounds"] = bounds or {}
    t0 = time.time()
    eng = Engine(**(engine_opts or {}))
    if pins:
        eng.pins = dict(pins)
    if ranges:
        eng.ranges = {k: tuple(v) for k, v in ranges.items()}
        res["bounds"] = dict(res["bounds"], split_ranges=dict(ranges))
    set_engine(eng)
    holder = {}

    def declare(e):
        inp = make(e)
        return pre(inp) if pre is not None else None

    try:
        if not eng.setup(declare):
            res["error"] = "vacuous precondition (unsat/unknown at depth 0)"
            return res
        if os.environ.get("VERIF_DRY"):
            # development aid: only build the job and decide its precondition at depth 0 (validates job lists)
            res["notes"].append("dry run: precondition satisfiable, nothing explored")
            res["complete"] = False
            set_engine(None)
            return res

        def run(e):
            inp = make(e)
            holder["inp"] = inp
            return body(inp)

        seen_labels = {}

        def on_path(e, outcome):
            inp = holder.get("inp")
            if outcome[0] == "unsupported":
                vals = e.model_of()
                if len(res["concretised"]) < 50:
                    res["concretised"].append(
                        {"reason": outcome[1], "case": case_of(vals, inp)})
                return
            if outcome[0] == "exc":
                res["exc_paths"] += 1
            if e.dec:
                res["nontrivial_paths"] += 1
            obs = post(inp, outcome)
            for label, ob in obs:
                res["obligations"] += 1
                if ob is True:
                    res["discharged"] += 1
                    res["trivially"] += 1
                    continue
                if ob is False:
                    vals = e.model_of()
                    _cand(res, seen_labels, label, vals, case_of, inp, "concrete-false")
                    continue
                r = e.check(z3.Not(ob))
                if r == z3.unsat:
                    res["discharged"] += 1
                    n_x = res["cvc5_agree"] + res["cvc5_disagree"] + res["cvc5_inconclusive"]
                    if n_x < XCHECK and (res["obligations"] % 7 == 1):
                        v = cvc5_recheck(e.s, z3.Not(ob))
                        if v == "unsat":
                            res["cvc5_agree"] += 1
                        elif v == "sat":
                            res["cvc5_disagree"] += 1
                            res["error"] = "z3/cvc5 disagreement on obligation %r" % (label,)
                        else:
                            res["cvc5_inconclusive"] += 1
                elif r == z3.sat:
                    vals = e.model_of(e.s.model())
                    _cand(res, seen_labels, label, vals, case_of, inp, "solver-model")
                else:
                    res["unknown"] += 1
            if scenarios is not None:
                for k, v in scenarios(inp).items():
                    if v and k not in res["scenarios"]:
                        res["scenarios"][k] = case_of(e.model_of(), inp)
            if scenarios_z3 is not None:
                for k, zc in scenarios_z3(inp).items():
                    if k not in res["scenarios"]:
                        if e.check(zc) == z3.sat:
                            res["scenarios"][k] = case_of(e.model_of(e.s.model()), inp)
            if sample_every and (res["paths"] % sample_every == 0) and len(res["samples"]) < 5:
                res["samples"].append(case_of(e.model_of(), inp))

        if not budget_s:
            budget_s = float(os.environ.get("VERIF_JOB_BUDGET", "900"))
        deadline = t0 + budget_s if budget_s else None
        st = eng.explore(run, on_path, max_paths=max_paths, deadline=deadline)
        for k in ("paths", "aborts", "unsupported", "cut", "flip_unknown", "complete"):
            res[k] = st[k]
        if st.get("deadline"):
            res["notes"].append("time budget hit: exploration incomplete")
    except Diverged as exc:
        res["error"] = "diverged: %s" % (exc,)
    except Unsupported as exc:
        res["error"] = "unsupported outside a path: %s" % (exc,)
    except Exception:
        res["error"] = "harness exception:\n" + traceback.format_exc()
    res["solver_queries"] = eng.nsolve
    res["solver_s"] = round(eng.tsolve, 3)
    res["branches"] = eng.nbranch
    res["folds"] = eng.nfold
    res["realisations"] = eng.nrealise
    res["entered"] = dict(eng.entered)
    res["wall_s"] = round(time.time() - t0, 3)
    set_engine(None)
    return res


def _cand(res, seen, label, vals, case_of, inp, how):
    n = seen.get(label, 0)
    seen[label] = n + 1
    if n >= 2 or len(res["candidates"]) >= MAX_CANDIDATES * 3:
        res.setdefault("candidates_dropped", 0)
        res["candidates_dropped"] += 1
        return
    try:
        case = case_of(vals, inp)
    except Exception:
        case = {"error": traceback.format_exc(), "values": vals}
    res["candidates"].append({"label": label, "how": how, "case": case})


def merge(results):
    """aggregate job results for evidence"""
    tot = new_result("total")
    for r in results:
        for k in ("paths", "aborts", "unsupported", "cut", "flip_unknown",
                  "obligations", "discharged", "trivially", "unknown",
                  "nontrivial_paths", "solver_queries", "branches", "folds",
                  "realisations", "exc_paths", "cvc5_agree", "cvc5_disagree", "cvc5_inconclusive"):
            tot[k] += r.get(k, 0)
        tot["solver_s"] += r.get("solver_s", 0.0)
        tot["complete"] = tot["complete"] and r.get("complete", False)
        for k, v in r.get("entered", {}).items():
            tot["entered"][k] = tot["entered"].get(k, 0) + v
    tot["solver_s"] = round(tot["solver_s"], 2)
    return tot
