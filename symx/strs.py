"""symx.strs -- strings of fixed shape with symbolic characters.

A SymStr is a sequence whose elements are concrete 1-character strings or
symbolic code points (SymInt, typically 48 + digit).  Length and punctuation
are concrete; digit / sign / decimal-mark *values* are symbolic.  Every
operation the code under test applies either is implemented here faithfully to
`str` (forking only on symbolic characters, through the engine) or raises
Unsupported -- nothing is silently approximated.

`re_shim` stands for the `re` module inside the code under test: compiled
patterns delegate to CPython's engine for ordinary strings and interpret the
pattern's own parse tree (re._parser) with a backtracking matcher for SymStr.
"""
import builtins
import re as _re
import sys

from . import core
from .core import SymInt, Unsupported, OpaqueStr

try:
    import re._parser as _sre_parse
    import re._constants as _sre_c
except ImportError:                     # Python < 3.11
    import sre_parse as _sre_parse
    import sre_constants as _sre_c

_str = builtins.str
_int = builtins.int
_len = builtins.len


def _issym(c):
    return type(c) is SymInt


def _shadow(c):
    return chr(c.v) if _issym(c) else c


class SymStr(OpaqueStr):
    """str subclass: .els = tuple of 1-char str | SymInt code point"""

    def __new__(cls, els):
        els = tuple(els)
        o = _str.__new__(cls, "".join(_shadow(c) for c in els))
        o.els = els
        return o

    # -- construction helpers ------------------------------------------------
    @staticmethod
    def lift(x):
        if type(x) is SymStr:
            return x.els
        if type(x) is _str:
            return tuple(x)
        if isinstance(x, OpaqueStr):
            raise Unsupported("opaque string in string operation")
        if isinstance(x, _str):
            return tuple(_str.__str__(x))
        raise TypeError("can only concatenate str (not %r) to str" % type(x).__name__)

    @staticmethod
    def make(els):
        els = tuple(els)
        for c in els:
            if _issym(c):
                return SymStr(els)
        return "".join(els)

    def concrete(self):
        return all(not _issym(c) for c in self.els)

    # -- basic protocol --------------------------------------------------------
    def __len__(self):
        return _len(self.els)

    def __iter__(self):
        for c in self.els:
            yield SymStr.make((c,))

    def __getitem__(self, k):
        if isinstance(k, slice):
            return SymStr.make(self.els[k])
        if type(k) is SymInt:
            k = k.__index__()
        return SymStr.make((self.els[k],))

    def __add__(self, o):
        if not isinstance(o, _str):
            return NotImplemented
        return SymStr.make(self.els + SymStr.lift(o))

    def __radd__(self, o):
        if not isinstance(o, _str):
            return NotImplemented
        return SymStr.make(SymStr.lift(o) + self.els)

    def __mul__(self, n):
        return SymStr.make(self.els * n)

    __rmul__ = __mul__

    def __bool__(self):
        return _len(self.els) > 0

    def __hash__(self):
        raise Unsupported("hash of symbolic string")

    def __str__(self):
        return self

    def __repr__(self):
        return "SymStr(%r)" % ("".join(_shadow(c) if not _issym(c) else "<%s>" % _shadow(c) for c in self.els),)

    def __format__(self, spec):
        if spec:
            raise Unsupported("format spec on symbolic string")
        return FORMAT_HOLES.hole(self)

    # -- comparisons -----------------------------------------------------------
    def _eq(self, o):
        if not isinstance(o, _str):
            return False
        oe = SymStr.lift(o)
        if _len(oe) != _len(self.els):
            return False
        for a, b in zip(self.els, oe):
            if not char_eq(a, b):
                return False
        return True

    def __eq__(self, o):
        return self._eq(o)

    def __ne__(self, o):
        return not self._eq(o)

    def __lt__(self, o):
        raise Unsupported("ordering of symbolic strings")

    __le__ = __gt__ = __ge__ = __lt__

    def __contains__(self, sub):
        return self.find(sub) >= 0

    # -- searching -------------------------------------------------------------
    def _match_at(self, i, pe):
        if i + _len(pe) > _len(self.els):
            return False
        for k, b in enumerate(pe):
            if not char_eq(self.els[i + k], b):
                return False
        return True

    def find(self, sub, start=0, end=None):
        pe = SymStr.lift(sub)
        n = _len(self.els) if end is None else end
        for i in range(start, n - _len(pe) + 1):
            if self._match_at(i, pe):
                return i
        return -1

    def rfind(self, sub):
        pe = SymStr.lift(sub)
        for i in range(_len(self.els) - _len(pe), -1, -1):
            if self._match_at(i, pe):
                return i
        return -1

    def index(self, sub):
        i = self.find(sub)
        if i < 0:
            raise ValueError("substring not found")
        return i

    def count(self, sub):
        pe = SymStr.lift(sub)
        n = i = 0
        while i <= _len(self.els) - _len(pe):
            if self._match_at(i, pe):
                n += 1
                i += max(1, _len(pe))
            else:
                i += 1
        return n

    def startswith(self, prefix, *a):
        if a:
            raise Unsupported("startswith with offsets")
        if isinstance(prefix, tuple):
            return any(self.startswith(p) for p in prefix)
        return self._match_at(0, SymStr.lift(prefix))

    def endswith(self, suffix, *a):
        if a:
            raise Unsupported("endswith with offsets")
        if isinstance(suffix, tuple):
            return any(self.endswith(p) for p in suffix)
        pe = SymStr.lift(suffix)
        if _len(pe) > _len(self.els):
            return False
        return self._match_at(_len(self.els) - _len(pe), pe)

    def split(self, sep=None, maxsplit=-1):
        if sep is None:
            raise Unsupported("whitespace split of symbolic string")
        pe = SymStr.lift(sep)
        out, cur, i, n = [], [], 0, 0
        while i < _len(self.els):
            if (maxsplit < 0 or n < maxsplit) and self._match_at(i, pe):
                out.append(SymStr.make(cur))
                cur = []
                i += _len(pe)
                n += 1
            else:
                cur.append(self.els[i])
                i += 1
        out.append(SymStr.make(cur))
        return out

    def rsplit(self, sep=None, maxsplit=-1):
        if sep is None:
            raise Unsupported("whitespace rsplit of symbolic string")
        if maxsplit < 0:
            return self.split(sep)
        pe = SymStr.lift(sep)
        out, end, n = [], _len(self.els), 0
        i = end - _len(pe)
        while i >= 0 and n < maxsplit:
            if self._match_at(i, pe):
                out.append(SymStr.make(self.els[i + _len(pe):end]))
                end = i
                i -= _len(pe)
                n += 1
            else:
                i -= 1
        out.append(SymStr.make(self.els[:end]))
        out.reverse()
        return out

    def partition(self, sep):
        i = self.find(sep)
        if i < 0:
            return self, "", ""
        return SymStr.make(self.els[:i]), sep, SymStr.make(self.els[i + _len(sep):])

    def splitlines(self, *a):
        raise Unsupported("splitlines of symbolic string")

    def replace(self, old, new, count=-1):
        pe, ne = SymStr.lift(old), SymStr.lift(new)
        if not pe:
            raise Unsupported("replace of empty pattern")
        out, i, n = [], 0, 0
        while i < _len(self.els):
            if (count < 0 or n < count) and self._match_at(i, pe):
                out.extend(ne)
                i += _len(pe)
                n += 1
            else:
                out.append(self.els[i])
                i += 1
        return SymStr.make(out)

    def _strip(self, chars, left, right):
        if chars is None:
            chars = " \t\n\r\x0b\x0c"
        els = list(self.els)
        if left:
            while els and any(char_eq(els[0], c) for c in chars):
                els.pop(0)
        if right:
            while els and any(char_eq(els[-1], c) for c in chars):
                els.pop()
        return SymStr.make(els)

    def strip(self, chars=None):
        return self._strip(chars, True, True)

    def lstrip(self, chars=None):
        return self._strip(chars, True, False)

    def rstrip(self, chars=None):
        return self._strip(chars, False, True)

    def isdigit(self):
        return _len(self.els) > 0 and all(char_is_digit(c) for c in self.els)

    def upper(self):
        return SymStr.make([c if _issym(c) and char_not_alpha(c) else _upper(c) for c in self.els])

    def lower(self):
        raise Unsupported("lower of symbolic string")

    def join(self, it):
        out = []
        first = True
        for x in it:
            if not first:
                out.extend(self.els)
            out.extend(SymStr.lift(x))
            first = False
        return SymStr.make(out)

    def __mod__(self, b):
        return fmt_percent(self, b)

    def encode(self, *a):
        raise Unsupported("encode of symbolic string")


def _upper(c):
    if _issym(c):
        raise Unsupported("upper of symbolic letter")
    return c.upper()


def char_not_alpha(c):
    lo, hi = core.ENG.interval(c.lin, c.c)
    return hi is not None and hi < 65


def char_eq(a, b):
    """equality of two characters (forks through the engine if symbolic)"""
    sa, sb = _issym(a), _issym(b)
    if not sa and not sb:
        return a == b
    ca = a if sa else ord(a)
    cb = b if sb else ord(b)
    return bool(ca == cb)


def char_is_digit(c):
    if not _issym(c):
        return c.isdecimal()
    return bool(c >= 48) and bool(c <= 57)


def char_in_range(c, lo, hi):
    if not _issym(c):
        return lo <= ord(c) <= hi
    return bool(c >= lo) and bool(c <= hi)


# ---------------------------------------------------------------------------
# numbers <-> strings
# ---------------------------------------------------------------------------
def sym_int_of_str(x):
    """int(x) for a SymStr of ASCII digits with an optional sign"""
    if type(x) is not SymStr:
        return NotImplemented
    els = list(x.els)
    sign = 1
    if els and ((not _issym(els[0]) and els[0] in "+-") or (_issym(els[0]) and not char_is_digit(els[0]))):
        c = els.pop(0)
        if char_eq(c, "-"):
            sign = -1
        elif not char_eq(c, "+"):
            raise ValueError("invalid literal for int() with base 10: %r" % _str.__str__(x))
    if not els:
        raise ValueError("invalid literal for int() with base 10: %r" % _str.__str__(x))
    val = 0
    for c in els:
        if _issym(c):
            if not char_is_digit(c):
                raise ValueError("invalid literal for int() with base 10: %r" % _str.__str__(x))
            val = val * 10 + (c - 48)
        else:
            if not ("0" <= c <= "9"):
                if c.isdecimal() or c in " _\t\n":
                    raise Unsupported("int() of non-ASCII digit / separator")
                raise ValueError("invalid literal for int() with base 10: %r" % _str.__str__(x))
            val = val * 10 + (ord(c) - 48)
    return sign * val


VALIDITY_ONLY_FLOAT = [False]


def float_grammar(x):
    """decide (forking on symbolic characters) whether CPython's float() accepts
    the ASCII text x: [ws] [+-] digits[_digits] [. digits] [(e|E)[+-]digits] [ws],
    or .digits forms, or inf/nan/infinity.  -> True / False"""
    els = list(x.els)
    ws = " \t\n\r\x0b\x0c"
    while els and any(char_eq(els[0], w) for w in ws):
        els.pop(0)
    while els and any(char_eq(els[-1], w) for w in ws):
        els.pop()
    if els and (char_eq(els[0], "+") or char_eq(els[0], "-")):
        els.pop(0)
    low = lambda c, ch: char_eq(c, ch) or char_eq(c, ch.upper())
    for word in ("infinity", "inf", "nan"):
        if _len(els) == _len(word) and all(low(c, w) for c, w in zip(els, word)):
            return True

    def digits(i):
        """digit run with single underscores between digits; -> (end, count)"""
        n = 0
        while i < _len(els) and char_is_digit(els[i]):
            i += 1
            n += 1
            if i + 1 < _len(els) and char_eq(els[i], "_") and char_is_digit(els[i + 1]):
                i += 1
        return i, n
    i, n1 = digits(0)
    n2 = 0
    if i < _len(els) and char_eq(els[i], "."):
        i, n2 = digits(i + 1)
    if n1 + n2 == 0:
        return False
    if i < _len(els) and (char_eq(els[i], "e") or char_eq(els[i], "E")):
        i += 1
        if i < _len(els) and (char_eq(els[i], "+") or char_eq(els[i], "-")):
            i += 1
        i, n3 = digits(i)
        if n3 == 0:
            return False
    return i == _len(els)


def sym_float_of_str(x):
    if type(x) is not SymStr:
        return NotImplemented
    if VALIDITY_ONLY_FLOAT[0]:
        # garbage jobs: only whether float() accepts the text is decided; the value is a placeholder
        if float_grammar(x):
            return 1.0
        raise ValueError("could not convert string to float: %r" % _str.__str__(x))
    # digits [. digits]: an integer part with symbolic digits and a CONCRETE fraction
    els = list(x.els)
    if any(not _issym(c) and c == "." for c in els):
        k = [i for i, c in enumerate(els) if not _issym(c) and c == "."][0]
        ip, fp = els[:k], els[k + 1:]
        if any(_issym(c) for c in fp):
            raise Unsupported("float() of a symbolic fraction")
        frac = float("0." + "".join(fp)) if fp else 0.0
        whole = sym_int_of_str(SymStr.make(ip)) if ip else 0
        if frac == 0.0:
            return core.FLOAT(whole)
        # exact decimal rational (the double nearest to it is what CPython returns;
        # harnesses that use this state the rational reading as their bound)
        den = 10 ** _len(fp)
        return core.SymRatio(whole * den + _int("".join(fp)), den)
    return core.FLOAT(sym_int_of_str(x))


def digits_of(v, width):
    """the `width` decimal digit characters of 0 <= v < 10**width (code points);
    top-down so that every quotient spans at most 10 multiples (merged ite-sums)"""
    out = []
    rest = v
    for i in range(width - 1, 0, -1):
        if type(rest) is SymInt:
            core.MERGE[0] = True
            try:
                d, rest = divmod(rest, 10 ** i)
            finally:
                core.MERGE[0] = False
        else:
            d, rest = divmod(rest, 10 ** i)
        out.append(d + 48 if _issym(d) else chr(48 + _int(d)))
    out.append(rest + 48 if _issym(rest) else chr(48 + _int(rest)))
    return out


def str_of_int(v, width=0, force_sign=False):
    """decimal rendering of a symbolic int (forks on sign and digit count)"""
    if type(v) is core.SymBool:
        v = v.as_int()
    if type(v) is not SymInt:
        s = ("%+d" if force_sign else "%d") % v
        return s.zfill(width) if width else s
    if v.isf:
        raise Unsupported("decimal rendering of a float-typed symbolic value")
    if width:
        lo0, hi0 = core.ENG.interval(v.lin, v.c)
        if lo0 is not None and hi0 is not None and lo0 >= 0 and hi0 < 10 ** width and not force_sign:
            return SymStr.make(digits_of(v, width))      # fixed width, no fork on the digit count
    neg = bool(v < 0)
    a = -v if neg else v
    n = 1
    lo, hi = core.ENG.interval(a.lin, a.c) if type(a) is SymInt else (a, a)
    while not bool(a < 10 ** n):
        n += 1
        if n > 18:
            raise Unsupported("unbounded decimal rendering")
    if type(a) is SymInt:
        # 0 <= a < 10**n was just decided on this path
        a = core.with_bounds(a, 0 if n == 1 else 10 ** (n - 1), 10 ** n - 1)
    ds = digits_of(a, n) if type(a) is SymInt else list(_str(a))
    pre = ["-"] if neg else (["+"] if force_sign else [])
    pad = max(0, width - _len(ds) - _len(pre))
    out = SymStr.make(pre + ["0"] * pad + ds)
    if type(out) is SymStr:
        out.num = v          # the number this text renders (harnesses may compare numerically)
    return out


_FMT = _re.compile(r"%(?:\((?P<key>[^)]*)\))?(?P<flags>[-+ 0#]*)(?P<width>\d+)?(?:\.(?P<prec>\d+))?(?P<conv>[diouxXeEfFgGcrsa%])")


def fmt_percent(fmt, args):
    """`fmt % args` where fmt is a concrete str (or SymStr without symbolic
    '%') and args hold symbolic values"""
    holes = None
    if type(fmt) is SymStr:
        # symbolic characters can only be literal text (digits / signs are never '%'
        # or part of a directive): they are carried through as private-use holes
        holes = {}
        txt = []
        for c in fmt.els:
            if _issym(c):
                if not char_not_alpha(c) or bool(c == 37):
                    raise Unsupported("symbolic character that could be part of a format directive")
                h = chr(0xE100 + _len(holes))
                holes[h] = c
                txt.append(h)
            else:
                txt.append(c)
        fmt = "".join(txt)
    fmt = _str.__str__(fmt) if type(fmt) is not _str else fmt
    out = []
    pos = 0
    idx = 0

    class _Out(list):
        def extend(self, it):
            for ch in it:
                list.append(self, holes.get(ch, ch) if (holes and not _issym(ch)) else ch)
    out = _Out()
    for m in _FMT.finditer(fmt):
        out.extend(fmt[pos:m.start()])
        pos = m.end()
        conv = m.group("conv")
        if conv == "%":
            out.append("%")
            continue
        if m.group("key") is not None:
            val = args[m.group("key")]
        elif isinstance(args, tuple):
            val = args[idx]
            idx += 1
        else:
            val = args
            idx += 1
        flags, width = m.group("flags") or "", _int(m.group("width") or 0)
        sym = type(val) in (SymInt, core.SymBool, core.SymRatio) or isinstance(val, OpaqueStr)
        if not sym:
            out.extend(("%" + flags + (m.group("width") or "") + ("." + m.group("prec") if m.group("prec") else "") + conv) % (val,))
            continue
        if conv in "di":
            if type(val) is core.SymRatio:
                val = val.trunc()
            elif type(val) is SymInt and val.isf:
                val = SymInt(val.lin, val.c, val.v, False)
            s = str_of_int(val, width if "0" in flags else 0, "+" in flags)
            if "0" not in flags and width:
                s = SymStr.make([" "] * max(0, width - _len(s)) + list(SymStr.lift(s)))
            out.extend(SymStr.lift(s))
        elif conv == "s":
            if isinstance(val, _str):
                out.extend(SymStr.lift(val))
            elif type(val) is SymInt and not val.isf:
                out.extend(SymStr.lift(str_of_int(val)))
            else:
                raise Unsupported("%%s of %s" % type(val).__name__)
        else:
            raise Unsupported("format conversion %%%s of a symbolic value" % conv)
    out.extend(fmt[pos:])
    return SymStr.make(out)


class _Holes:
    """str.format() on proxies: __format__ must hand back a real str, so a
    private-use placeholder is returned and substituted back afterwards by
    sym_format (the AST rewrite routes every .format call through it)."""

    def __init__(self):
        self.vals = []
        self.active = 0

    def hole(self, v):
        if not self.active:
            raise Unsupported("format() of a symbolic value outside sym_format")
        self.vals.append(v)
        return chr(0xE000 + _len(self.vals) - 1)


FORMAT_HOLES = _Holes()


def sym_format(fmt, *args, **kw):
    """`fmt.format(*args, **kw)`"""
    if type(fmt) is not _str:
        if type(fmt) is SymStr:
            raise Unsupported("symbolic format string")
        return fmt.format(*args, **kw)
    if not (core._has_sym(args) or core._has_sym(tuple(kw.values())) or
            any(type(a) is SymStr for a in args) or any(type(a) is SymStr for a in kw.values())):
        return fmt.format(*args, **kw)
    H = FORMAT_HOLES
    H.active += 1
    base = _len(H.vals)
    try:
        txt = fmt.format(*args, **kw)
    finally:
        H.active -= 1
    out = []
    for ch in txt:
        k = ord(ch) - 0xE000
        if base <= k < _len(H.vals):
            out.extend(SymStr.lift(H.vals[k]))
        else:
            out.append(ch)
    if not H.active:
        del H.vals[:]
    return SymStr.make(out)


def _symint_format(self, spec):
    if not FORMAT_HOLES.active:
        return "<sym>"
    if spec in ("", "d"):
        return FORMAT_HOLES.hole(str_of_int(self))
    m = _re.match(r"^(0?)(\d+)d$", spec)
    if m:
        w = _int(m.group(2))
        s = str_of_int(self, w if m.group(1) else 0)
        if not m.group(1):
            s = SymStr.make([" "] * max(0, w - _len(s)) + list(SymStr.lift(s)))
        return FORMAT_HOLES.hole(s)
    raise Unsupported("format spec %r on a symbolic integer" % spec)


# ---------------------------------------------------------------------------
# regular expressions on SymStr
# ---------------------------------------------------------------------------
class SymMatch:
    def __init__(self, string, groups, names, span, ngroups):
        self.string = string
        self._g = groups            # index -> (start, end) | None
        self._names = names
        self._span = span
        self._n = ngroups
        self.re = None

    def _sub(self, se):
        if se is None:
            return None
        return SymStr.make(SymStr.lift(self.string)[se[0]:se[1]])

    def group(self, *idx):
        if not idx:
            idx = (0,)
        out = []
        for i in idx:
            if isinstance(i, _str):
                i = self._names[i]
            out.append(self._sub(self._span if i == 0 else self._g.get(i)))
        return out[0] if _len(out) == 1 else tuple(out)

    def groups(self, default=None):
        return tuple(self._sub(self._g.get(i)) if self._g.get(i) is not None else default
                     for i in range(1, self._n + 1))

    def groupdict(self, default=None):
        return {n: (self._sub(self._g.get(i)) if self._g.get(i) is not None else default)
                for n, i in self._names.items()}

    def start(self, g=0):
        return (self._span if g == 0 else self._g[g])[0]

    def end(self, g=0):
        return (self._span if g == 0 else self._g[g])[1]

    def span(self, g=0):
        return self._span if g == 0 else self._g[g]

    def __bool__(self):
        return True


class SymRegex:
    """compiled pattern: CPython's engine on plain strings, own interpreter on SymStr"""

    def __init__(self, pattern, flags=0):
        self._real = _re.compile(pattern, flags)
        self.pattern = pattern
        self.flags = self._real.flags
        self.groupindex = dict(self._real.groupindex)
        self.groups = self._real.groups
        self._tree = None

    def _parse(self):
        if self._tree is None:
            self._tree = _sre_parse.parse(self.pattern, self.flags & ~_re.UNICODE if False else self.flags)
        return self._tree

    def __getattr__(self, name):
        return getattr(self._real, name)

    def _symbolic(self, s):
        if type(s) is SymStr:
            return True
        if isinstance(s, OpaqueStr):
            raise Unsupported("regex on an opaque string")
        return False

    def match(self, s, *a):
        if not self._symbolic(s):
            return self._real.match(s, *a)
        return self._run(s, 0, anchored=True)

    def fullmatch(self, s, *a):
        if not self._symbolic(s):
            return self._real.fullmatch(s, *a)
        m = self._run(s, 0, anchored=True, full=True)
        return m

    def search(self, s, *a):
        if not self._symbolic(s):
            return self._real.search(s, *a)
        for st in range(_len(s) + 1):
            m = self._run(s, st, anchored=True)
            if m is not None:
                return m
        return None

    def sub(self, repl, s, count=0, **k):
        if type(repl) is SymStr or isinstance(repl, OpaqueStr):
            raise Unsupported("re.sub with a symbolic replacement")
        if not self._symbolic(s):
            return self._real.sub(repl, s, count, **k)
        if callable(repl) or "\\" in repl:
            raise Unsupported("re.sub on a symbolic string with a callable / group-reference replacement")
        out, pos, n, done = [], 0, _len(s.els), 0
        while pos <= n:
            m = self._run(s, pos, anchored=True) if (not count or done < count) else None
            if m is not None and m.end() > pos:
                out.extend(repl)
                pos = m.end()
                done += 1
                continue
            if m is not None and m.end() == pos:
                out.extend(repl)      # empty match: CPython inserts the replacement and moves on
                done += 1
            if pos < n:
                out.append(s.els[pos])
            pos += 1
        return SymStr.make(out)

    def split(self, s, *a, **k):
        if self._symbolic(s):
            raise Unsupported("re.split on a symbolic string")
        return self._real.split(s, *a, **k)

    def findall(self, s, *a):
        if self._symbolic(s):
            raise Unsupported("re.findall on a symbolic string")
        return self._real.findall(s, *a)

    def finditer(self, s, *a):
        if self._symbolic(s):
            raise Unsupported("re.finditer on a symbolic string")
        return self._real.finditer(s, *a)

    # -- interpreter -----------------------------------------------------------
    def _run(self, s, start, anchored=True, full=False):
        els = s.els
        n = _len(els)
        tree = self._parse()
        groups = {}

        def m_seq(items, idx, pos, k):
            if idx == _len(items):
                return k(pos)
            op, av = items[idx]
            nxt = lambda p: m_seq(items, idx + 1, p, k)
            return m_node(op, av, pos, nxt)

        def m_node(op, av, pos, k):
            name = _str(op)
            if name == "LITERAL":
                if pos < n and char_eq(els[pos], chr(av)):
                    return k(pos + 1)
                return None
            if name == "NOT_LITERAL":
                if pos < n and not char_eq(els[pos], chr(av)):
                    return k(pos + 1)
                return None
            if name == "ANY":
                if pos < n and (self.flags & _re.DOTALL or not char_eq(els[pos], "\n")):
                    return k(pos + 1)
                return None
            if name == "IN":
                if pos < n and in_class(els[pos], av):
                    return k(pos + 1)
                return None
            if name == "CATEGORY":
                if pos < n and category(els[pos], av):
                    return k(pos + 1)
                return None
            if name == "AT":
                an = _str(av)
                if an in ("AT_BEGINNING", "AT_BEGINNING_STRING"):
                    return k(pos) if pos == 0 else None
                if an in ("AT_END_STRING",):
                    return k(pos) if pos == n else None
                if an == "AT_END":
                    if pos == n or (pos == n - 1 and char_eq(els[pos], "\n")):
                        return k(pos)
                    return None
                raise Unsupported("regex anchor %s" % an)
            if name == "SUBPATTERN":
                gid, add_flags, del_flags, sub = av
                if add_flags or del_flags:
                    raise Unsupported("inline regex flags")
                old = groups.get(gid)

                def after(p, pos=pos):
                    if gid is not None:
                        prev = groups.get(gid)
                        groups[gid] = (pos, p)
                        r = k(p)
                        if r is None:
                            groups[gid] = prev
                        return r
                    return k(p)
                r = m_seq(list(sub), 0, pos, after)
                if r is None and gid is not None:
                    groups[gid] = old
                return r
            if name == "BRANCH":
                _, alts = av
                for alt in alts:
                    r = m_seq(list(alt), 0, pos, k)
                    if r is not None:
                        return r
                return None
            if name in ("MAX_REPEAT", "MIN_REPEAT"):
                lo, hi, sub = av
                sub = list(sub)
                hi = n + 1 if hi == _sre_c.MAXREPEAT else hi
                greedy = name == "MAX_REPEAT"

                def rep(count, p):
                    if greedy:
                        if count < hi:
                            r = m_seq(sub, 0, p, lambda q: rep(count + 1, q) if q > p or count < lo else None)
                            if r is not None:
                                return r
                        if count >= lo:
                            return k(p)
                        return None
                    if count >= lo:
                        r = k(p)
                        if r is not None:
                            return r
                    if count < hi:
                        return m_seq(sub, 0, p, lambda q: rep(count + 1, q) if q > p or count < lo else None)
                    return None
                return rep(0, pos)
            if name in ("ASSERT", "ASSERT_NOT"):
                direction, sub = av
                if direction > 0:
                    saved = dict(groups)
                    r = m_seq(list(sub), 0, pos, lambda p: p)
                    ok = r is not None
                else:
                    lo_w, hi_w = sub.getwidth()
                    if lo_w != hi_w:
                        raise Unsupported("variable-width lookbehind")
                    saved = dict(groups)
                    ok = pos - lo_w >= 0 and m_seq(list(sub), 0, pos - lo_w, lambda p: p if p == pos else None) is not None
                if name == "ASSERT_NOT":
                    groups.clear()
                    groups.update(saved)
                    ok = not ok
                return k(pos) if ok else None
            raise Unsupported("regex construct %s" % name)

        def in_class(c, items):
            neg = False
            hit = False
            for op, av in items:
                nm = _str(op)
                if nm == "NEGATE":
                    neg = True
                elif nm == "LITERAL":
                    if not hit and char_eq(c, chr(av)):
                        hit = True
                elif nm == "RANGE":
                    if not hit and char_in_range(c, av[0], av[1]):
                        hit = True
                elif nm == "CATEGORY":
                    if not hit and category(c, av):
                        hit = True
                else:
                    raise Unsupported("regex class item %s" % nm)
            return hit != neg

        def category(c, av):
            nm = _str(av)
            if nm == "CATEGORY_DIGIT":
                return char_is_digit(c)
            if nm == "CATEGORY_NOT_DIGIT":
                return not char_is_digit(c)
            if nm == "CATEGORY_WORD":
                if _issym(c):
                    return char_is_digit(c) or char_in_range(c, 65, 90) or char_in_range(c, 97, 122) or char_eq(c, "_")
                return c.isalnum() or c == "_"
            if nm == "CATEGORY_SPACE":
                if _issym(c):
                    return char_in_range(c, 9, 13) or char_eq(c, " ")
                return c.isspace()
            raise Unsupported("regex category %s" % nm)

        def done(p):
            if full and p != n:
                return None
            return p

        end = m_seq(list(tree), 0, start, done)
        if end is None:
            return None
        m = SymMatch(s, {g: se for g, se in groups.items() if se is not None}, self.groupindex, (start, end), self.groups)
        m.re = self
        return m


class _ReShim:
    """stands for the `re` module inside the code under test"""

    def __init__(self):
        self._cache = {}

    def compile(self, pattern, flags=0):
        if isinstance(pattern, SymRegex):
            return pattern
        if type(pattern) is SymStr or isinstance(pattern, OpaqueStr):
            raise Unsupported("compiling a symbolic regular expression")
        key = (pattern, _int(flags))
        r = self._cache.get(key)
        if r is None:
            r = self._cache[key] = SymRegex(pattern, flags)
        return r

    def match(self, pattern, s, flags=0):
        return self.compile(pattern, flags).match(s)

    def search(self, pattern, s, flags=0):
        return self.compile(pattern, flags).search(s)

    def fullmatch(self, pattern, s, flags=0):
        return self.compile(pattern, flags).fullmatch(s)

    def sub(self, pattern, repl, s, count=0, flags=0):
        return self.compile(pattern, flags).sub(repl, s, count)

    def split(self, pattern, s, maxsplit=0, flags=0):
        return self.compile(pattern, flags).split(s, maxsplit)

    def escape(self, s):
        if type(s) is SymStr:
            raise Unsupported("re.escape of a symbolic string")
        return _re.escape(s)

    def __getattr__(self, name):
        return getattr(_re, name)


re_shim = _ReShim()


def install():
    """plug the string layer into the core shims"""
    core.sym_int_hook = lambda x: sym_int_of_str(x)
    core.sym_float_hook = lambda x: sym_float_of_str(x)
    core.sym_fmt_hook = lambda a, b: fmt_percent(a, b)
    core.sym_str_hook = lambda x: (str_of_int(x) if (type(x) is SymInt and not x.isf) or type(x) is core.SymBool else NotImplemented)
    SymInt.__format__ = _symint_format


# helpers for harnesses -------------------------------------------------------
def digit(eng, name, lo=0, hi=9):
    """a symbolic decimal digit character (code point) and its value"""
    d = eng.var(name, lo, hi)
    return (d + 48 if _issym(d) else chr(48 + d)), d


def z3_str_eq(a, b):
    """z3 formula: two (Sym)strings are equal character by character"""
    import z3
    ea, eb = SymStr.lift(a), SymStr.lift(b)
    if _len(ea) != _len(eb):
        return z3.BoolVal(False)
    cs = []
    for x, y in zip(ea, eb):
        if not _issym(x) and not _issym(y):
            if x != y:
                return z3.BoolVal(False)
            continue
        cs.append(core.lift(x if _issym(x) else ord(x)) == core.lift(y if _issym(y) else ord(y)))
    return z3.And(cs) if cs else z3.BoolVal(True)


def shadow(s):
    return _str.__str__(s) if isinstance(s, _str) else s
