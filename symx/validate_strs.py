"""Differential validation of the string layer (concrete mode, every run of a
string-level check): the SymStr regex interpreter against CPython's `re` on
every pattern the library compiles, over strings taken from the repository's
own tests plus single-character mutations; and `%`-formatting / str methods of
SymStr against `str`."""
import ast
import os
import random
import sys

VERIF = os.path.dirname(os.path.dirname(os.path.abspath(__file__)))
sys.path.insert(0, VERIF)


def corpus(repo, limit=4000, seed=0):
    out = set()
    tdir = os.path.join(repo, "metomi", "isodatetime", "tests")
    for f in sorted(os.listdir(tdir)):
        if f.endswith(".py"):
            tree = ast.parse(open(os.path.join(tdir, f)).read())
            for n in ast.walk(tree):
                if isinstance(n, ast.Constant) and isinstance(n.value, str) and 0 < len(n.value) <= 40 and "\n" not in n.value:
                    out.add(n.value)
    base = sorted(out)
    rnd = random.Random(seed)
    alphabet = "0123456789-+:,.TZWPRYMDHS/ x٣５"
    extra = set()
    for s in base:
        for _ in range(3):
            i = rnd.randrange(len(s))
            how = rnd.randrange(3)
            if how == 0:
                extra.add(s[:i] + rnd.choice(alphabet) + s[i + 1:])
            elif how == 1:
                extra.add(s[:i] + s[i + 1:])
            else:
                extra.add(s[:i] + rnd.choice(alphabet) + s[i:])
    allv = base + sorted(extra)
    rnd.shuffle(allv)
    return allv[:limit]


def main():
    from symx import loader, strs
    mods = loader.load()
    P = mods["parsers"]
    # make the library compile all its patterns
    for kw in (dict(), dict(allow_truncated=True), dict(allow_only_basic=True), dict(num_expanded_year_digits=0),
               dict(num_expanded_year_digits=3, allow_truncated=True)):
        P.TimePointParser(**kw)
    P.DurationParser()
    P.TimeRecurrenceParser()
    tp = P.TimePointParser()
    for f in ("%Y-%m-%dT%H:%M:%S%z", "%Y%m%dT%H%M%S", "%j %F %X", "%s", "%d/%m/%Y"):
        try:
            tp.strptime("x", f)
        except Exception:
            pass
    pats = list(strs.re_shim._cache.values())
    strings = corpus(loader.REPO, limit=int(os.environ.get("VERIF_STRS_LIMIT", "4000")))
    n = bad = 0
    for rx in pats:
        for s in strings:
            for meth in ("match", "search"):
                real = getattr(rx._real, meth)(s)
                mine = getattr(rx, meth)(strs.SymStr(tuple(s)))
                n += 1
                if (real is None) != (mine is None):
                    bad += 1
                    print("MISMATCH", rx.pattern[:60], repr(s), meth, real, mine)
                elif real is not None:
                    if real.span() != mine.span() or real.groupdict() != {k: (None if v is None else str.__str__(v)) for k, v in mine.groupdict().items()}:
                        bad += 1
                        print("MISMATCH groups", rx.pattern[:60], repr(s), meth, real.groupdict(), mine.groupdict())
                if bad > 10:
                    print("validate_strs: too many mismatches")
                    return 1
    # formatting and str methods
    import itertools
    rnd = random.Random(1)
    for _ in range(3000):
        v = rnd.choice([0, 1, 9, 10, 99, 100, 999, 1234, 9999, 10000, 123456, -1, -12, -999])
        for f in ("%d", "%02d", "%03d", "%04d", "%06d", "%s", "%(a)02d-%(b)03d", "x%+03dy"):
            args = {"a": v, "b": abs(v)} if "(" in f else v
            exp = f % args
            got = strs.fmt_percent(f, args)
            n += 1
            if exp != got:
                bad += 1
                print("MISMATCH fmt", f, args, exp, got)
    for s in strings[:800]:
        t = strs.SymStr(tuple(s))
        for sep in ("T", "-", "+", "/", ":"):
            n += 1
            if [str.__str__(x) for x in t.split(sep)] != s.split(sep) or [str.__str__(x) for x in t.rsplit(sep, 1)] != s.rsplit(sep, 1):
                bad += 1
                print("MISMATCH split", repr(s), sep)
            if (sep in t) != (sep in s) or t.startswith(sep) != s.startswith(sep) or t.endswith(sep) != s.endswith(sep):
                bad += 1
                print("MISMATCH in/startswith", repr(s), sep)
        if str.__str__(t.replace(",", ".")) != s.replace(",", ".") or str.__str__(t.lstrip("-")) != s.lstrip("-"):
            bad += 1
            print("MISMATCH replace/lstrip", repr(s))
        try:
            e = int(s)
        except ValueError:
            e = "VE"
        try:
            g = strs.sym_int_of_str(t)
        except ValueError:
            g = "VE"
        except Exception as exc:
            g = e if type(exc).__name__ == "Unsupported" else "EXC"
        except BaseException as exc:
            g = e
        n += 1
        if e != g:
            bad += 1
            print("MISMATCH int", repr(s), e, g)
    print("validate_strs: %d patterns x %d strings, %d comparisons, %d mismatches" % (len(pats), len(strings), n, bad))
    return 1 if bad else 0


if __name__ == "__main__":
    sys.exit(main())
