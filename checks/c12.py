"""C12 -- a recurrence iterates exactly the series it denotes.

Real code: TimeRecurrence.__init__/__iter__/get_next/get_prev/_get_is_in_bounds/
__eq__, Duration.__mul__/__lt__/__eq__/__bool__, and the TimePoint +, -, <
chain under them.
"""
import itertools

import z3

import refmodel as R
from symx import core
from symx.core import lift, conc
from symx.harness import sym_run
from . import common as C
from .c01 import MULT, same_point_z3
from .c03 import install_range_summary

PROPERTY = "C12"
L = lift
NOMINAL = [dict(months=1), dict(months=2), dict(months=1, days=2), dict(years=1), dict(years=1, months=1),
           dict(years=1, days=2, hours=3)]


def anchor_input(e, data, tag, rep, tzh=(-3, 3)):
    return C.point_input(e, data, tag, rep, tzh=tzh, hmax=23)


def build(data, fmt, reps, anchor, dur, second=None):
    if fmt == 3:
        return data.TimeRecurrence(repetitions=reps, start_point=anchor, duration=dur)
    if fmt == 4:
        return data.TimeRecurrence(repetitions=reps, end_point=anchor, duration=dur)
    return data.TimeRecurrence(repetitions=reps, start_point=anchor, end_point=second)


def take(r, k):
    out = []
    for x in r:
        out.append(x)
        if len(out) >= k:
            break
    return out


def job_iter(ctx, mode, fmt, reps, unit, lo, hi, rep="ord", ranges=None, pins=None, K=C.KWIDE, a24=False):
    """exact single-unit symbolic interval; reps in {1..4} or None (unbounded); a24: the anchor is written in
    the 24:00 end-of-day form"""
    data = ctx.data
    C.set_mode(data, mode)
    install_range_summary(data, mode)
    k = reps if reps is not None else 4
    if a24:
        ranges = dict(ranges or {}, h=(24, 24), mi=(0, 0), se=(0, 0))

    def make(e):
        a = C.point_input(e, data, "", rep, tzh=(-3, 3), hmax=24) if a24 else anchor_input(e, data, "", rep)
        return {"a": a, "n": e.var("n", lo, hi)}

    def pre(i):
        return C.m_valid_point(mode, i["a"], rep, a24)

    def body(i):
        a, n = i["a"], i["n"]
        d = data.Duration(**{unit: n})
        second = a + d if fmt == 1 else None
        r = build(data, fmt, reps, a, d, second)
        return r, take(r, k + 1)

    def post(i, out):
        if out[0] != "ok":
            return [("no exception", False)]
        a, n = i["a"], i["n"]
        r, pts = out[1]
        step = L(n) * MULT[unit]
        ia = L(C.m_instant(mode, a, rep))
        zero = (conc(n) == 0)
        # the decision "n == 0" was taken on the path by the constructor
        want = 1 if (reps == 1 or zero) else k
        obs = []
        if reps is None and not zero:
            obs.append(("an unbounded series keeps going", len(pts) == k + 1))
            pts = pts[:k]
        else:
            obs.append(("exactly %d point(s)" % want, len(pts) == want))
        for j, p in enumerate(pts[:want]):
            if C.rep_of(p) != rep:
                obs.append(("point %d keeps the anchor's representation" % j, False))
                continue
            if fmt == 4 and reps is None:
                exp = ia - j * step                  # end, end-d, end-2d, ...
            elif fmt == 4:
                exp = ia - (want - 1 - j) * step     # n increasing points ending at the anchor
            else:
                exp = ia + j * step
            obs.append(("point %d is the anchor %+d intervals" % (j, j), L(C.m_instant(mode, p, rep)) == exp))
            # (the anchor itself may be yielded as it was written, 24:00 included)
            obs.append(("point %d valid, anchor's zone" % j, z3.And(C.m_valid_point(mode, p, rep, a24), C.z_same_zone(a, p))))
        return obs

    def case_of(v, i):
        return {"check": "iter", "mode": mode, "fmt": fmt, "reps": reps, "a": C.point_case(v, "", rep),
                "dur": {unit: v["n"]}}

    return sym_run("iter[%s,fmt%d,R%s,%s %d..%d,%s,%s%s]" % (mode, fmt, reps, unit, lo, hi, rep, ranges, ",a24" if a24 else ""), make, pre, body, post,
                   case_of, ranges=ranges, pins=pins,
                   scenarios=lambda i: {"zero interval": conc(i["n"]) == 0, "fmt%d" % fmt: True,
                                        "unbounded": reps is None, "one repetition": reps == 1, "anchor written as 24:00": a24},
                   bounds={"years": "K in %s" % (K,), "interval": {unit: [lo, hi]}, "repetitions": reps, "offsets": "+-3:59"},
                   sample_every=100)


def job_iter_nominal(ctx, mode, fmt, reps, dur_kw, rep="cal", ranges=None):
    """nominal interval (concrete): every point is the previous one +/- the
    interval (the single steps themselves are C05's subject)"""
    data = ctx.data
    C.set_mode(data, mode)
    install_range_summary(data, mode)
    k = reps if reps is not None else 4

    def make(e):
        return {"a": anchor_input(e, data, "", rep)}

    def pre(i):
        return C.m_valid_point(mode, i["a"], rep, False)

    def body(i):
        a = i["a"]
        d = data.Duration(**dur_kw)
        second = a + d if fmt == 1 else None
        r = build(data, fmt, reps, a, d, second)
        pts = take(r, k + 1)
        # reference series by repeated single additions from the anchor
        ref = [a]
        for _ in range(k - 1):
            ref.append(ref[-1] - d if fmt == 4 else ref[-1] + d)
        return r, pts, ref

    def post(i, out):
        if out[0] != "ok":
            return [("no exception", False)]
        r, pts, ref = out[1]
        obs = []
        if reps is None:
            obs.append(("an unbounded series keeps going", len(pts) == k + 1))
            pts = pts[:k]
            for j, (p, q) in enumerate(zip(pts, ref)):
                obs.append(("point %d is the previous one %s the interval" % (j, "-" if fmt == 4 else "+"), same_point_z3(p, q)))
            return obs
        obs.append(("exactly %d points" % k, len(pts) == k))
        if len(pts) != k:
            return obs
        if fmt == 4:
            # n increasing points that include the given end and step by the interval
            obs.append(("the series includes its anchor (the given end)", same_point_z3(pts[-1], i["a"])))
            for j in range(1, k):
                obs.append(("point %d is the previous one + the interval" % j, same_point_z3(pts[j], pts[j - 1] + data.Duration(**dur_kw))))
        else:
            for j, (p, q) in enumerate(zip(pts, ref)):
                obs.append(("point %d is the previous one + the interval" % j, same_point_z3(p, q)))
        for j in range(1, len(pts)):
            obs.append(("strictly increasing", L(C.m_instant(mode, pts[j], rep)) > L(C.m_instant(mode, pts[j - 1], rep))))
        return obs

    def case_of(v, i):
        return {"check": "iter", "mode": mode, "fmt": fmt, "reps": reps, "a": C.point_case(v, "", rep), "dur": dur_kw}

    return sym_run("iter_nominal[%s,fmt%d,R%s,%s,%s,%s]" % (mode, fmt, reps, dur_kw, rep, ranges), make, pre, body, post, case_of,
                   ranges=ranges, scenarios=lambda i: {"nominal interval": True},
                   bounds={"interval": dur_kw, "repetitions": reps, "offsets": "+-3:59"}, sample_every=100)


def job_notations(ctx, mode, reps, unit, lo, hi, rep="ord", ranges=None):
    """the three notations of one finite exact series are == and iterate identically"""
    data = ctx.data
    C.set_mode(data, mode)
    install_range_summary(data, mode)

    def make(e):
        return {"a": anchor_input(e, data, "", rep), "n": e.var("n", lo, hi)}

    def pre(i):
        return C.m_valid_point(mode, i["a"], rep, False)

    def body(i):
        a, n = i["a"], i["n"]
        d = data.Duration(**{unit: n})
        end = a + d * (reps - 1)
        r3 = build(data, 3, reps, a, d)
        r4 = build(data, 4, reps, end, d)
        r1 = build(data, 1, reps, a, d, a + d)
        return (r3 == r4, r3 == r1, r4 == r1), [take(r, reps + 1) for r in (r3, r4, r1)]

    def post(i, out):
        if out[0] != "ok":
            return [("no exception", False)]
        eqs, series = out[1]
        obs = [("start/duration == duration/end", bool(eqs[0])), ("start/duration == start/second-point", bool(eqs[1])),
               ("duration/end == start/second-point", bool(eqs[2]))]
        s3, s4, s1 = series
        obs.append(("same number of points", len(s3) == len(s4) == len(s1) == reps))
        for x, y, w in zip(s3, s4, s1):
            obs.append(("same points", z3.And(same_point_z3(x, y), same_point_z3(x, w))))
        return obs

    def case_of(v, i):
        return {"check": "notations", "mode": mode, "reps": reps, "a": C.point_case(v, "", rep), "dur": {unit: v["n"]}}

    return sym_run("notations[%s,R%d,%s %d..%d,%s,%s]" % (mode, reps, unit, lo, hi, rep, ranges), make, pre, body, post, case_of,
                   ranges=ranges, scenarios=lambda i: {"three notations": True},
                   bounds={"interval": {unit: [lo, hi]}, "repetitions": reps}, sample_every=100)


# ---------------------------------------------------------------------------
def replay(case, M):
    data = M.data
    mode = case["mode"]
    data.CALENDAR.set_mode(mode)
    try:
        a = C.build_point(data, case["a"])
        d = data.Duration(**case["dur"])
        if case["check"] == "notations":
            n = case["reps"]
            r3, r4, r1 = build(data, 3, n, a, d), build(data, 4, n, a + d * (n - 1), d), build(data, 1, n, a, d, a + d)
            pts = [[str(x) for x in take(r, n + 1)] for r in (r3, r4, r1)]
            bad = not (r3 == r4 and r3 == r1 and r4 == r1) or not (pts[0] == pts[1] == pts[2]) or len(pts[0]) != n
            return bad, "notations %s / %s / %s: equal=%s points=%s" % (r3, r4, r1, (r3 == r4, r3 == r1), pts)
        fmt, reps = case["fmt"], case["reps"]
        second = a + d if fmt == 1 else None
        r = build(data, fmt, reps, a, d, second)
        k = reps if reps is not None else 4
        pts = take(r, k + 1)
        exact = d.is_exact()
        zero = not bool(d)
        want = 1 if (reps == 1 or zero) else k
        desc = "%s yields %s" % (r, [str(x) for x in pts])
        if reps is None and not zero:
            if len(pts) != k + 1:
                return True, desc + " (an unbounded series must keep going)"
            pts = pts[:k]
        elif len(pts) != want:
            return True, desc + " (expected exactly %d points)" % want
        inst = [C.py_instant(mode, p) for p in pts]
        ia = C.py_instant(mode, a)
        if exact:
            step = d.get_seconds()
            for j, t in enumerate(inst):
                exp = ia - j * step if (fmt == 4 and reps is None) else (ia - (want - 1 - j) * step if fmt == 4 else ia + j * step)
                if t != exp:
                    return True, desc + " (point %d is off by %s s)" % (j, t - exp)
        else:
            sgn = -1 if (fmt == 4 and reps is None) else 1
            for j in range(1, len(pts)):
                ref = pts[j - 1] + (d if sgn > 0 else -1 * d)
                if str(ref) != str(pts[j]):
                    return True, desc + " (point %d is not the previous one %s the interval)" % (j, "+" if sgn > 0 else "-")
            if ia not in inst:
                return True, desc + " (the series does not include its anchor %s)" % a
        if reps is not None and any(y <= x for x, y in zip(inst, inst[1:])):
            return True, desc + " (not strictly increasing)"
        return False, desc
    finally:
        data.CALENDAR.set_mode("gregorian")


def jobs(tier):
    th = tier == "thorough"
    J = []
    for mode in (C.MODES4 if th else ["gregorian", "360day", "366day"]):
        greg = mode == "gregorian"
        last = {"gregorian": 366, "360day": 360, "365day": 365, "366day": 366}[mode]
        W = [{"DOY": (1, 2)}, {"DOY": (59, 60)}, {"DOY": (last - 2, last)}]
        only_cal = mode == "366day" and not th      # quick tier: this mode runs the calendar-anchored jobs only
        for fmt in (3, 4, 1) if not only_cal else ():
            for reps in (1, 2, 3, None) if not th else (1, 2, 3, 4, None):
                units = [("hours", 0, 50), ("days", 0, 400)]
                if greg and fmt != 1:
                    units += [("seconds", 0, 4000), ("minutes", 0, 1500), ("weeks", 0, 60)]
                if fmt == 1:
                    # the interval of start/second-point is (second - start): an exact duration
                    units = [("hours", 0, 30), ("days", 0, 40)]
                for unit, lo, hi in units:
                    if fmt == 1 and reps == 1:
                        continue
                    if reps == 4 and unit == "seconds":
                        hi = 1000       # 3 x 4000 s back from 1 January: z3 answers unknown on some branch flips (measured)
                    for w in (W if (greg and (th or unit in ("hours", "days"))) or (th and unit == "days") else W[2:]):
                        J.append(("job_iter", dict(mode=mode, fmt=fmt, reps=reps, unit=unit, lo=lo, hi=hi, ranges=w)))
        if greg or th:
            for fmt in (3, 4):
                for reps in (2, 3, None):
                    for unit, lo, hi in (("hours", 0, 50), ("days", 0, 40)):
                        J.append(("job_iter", dict(mode=mode, fmt=fmt, reps=reps, unit=unit, lo=lo, hi=hi, ranges=W[2], a24=True)))
        # exact intervals from anchors written as calendar dates (around the end of February and the year end) and
        # as week dates (weeks 8-10 and 52-53; year residue pinned mod 400, cycle index symbolic)
        for fmt in (1, 3, 4):
            for reps in (3, None):
                for rg in ({"M": (2, 3), "D": (13, 16)}, {"M": (12, 12), "D": (18, 22)}):
                    J.append(("job_iter", dict(mode=mode, fmt=fmt, reps=reps, unit="days", lo=0, hi=40, rep="cal", ranges=rg)))
                if greg:
                    for wk in ((8, 10), (52, 53)):
                        J.append(("job_iter", dict(mode=mode, fmt=fmt, reps=reps, unit="days", lo=0, hi=20, rep="week",
                                                   ranges={"W": wk}, pins=C.residue_pins(104 if wk[0] == 8 else 4))))
        for reps in (2, 3) if not only_cal else ():
            for w in W[1:]:
                J.append(("job_notations", dict(mode=mode, reps=reps, unit="hours", lo=1, hi=50, ranges=w)))
                J.append(("job_notations", dict(mode=mode, reps=reps, unit="days", lo=1, hi=40, ranges=w)))
        if greg or th:
            for fmt in (3, 4):
                for reps in (2, 3, None):
                    for dk in (NOMINAL if th else NOMINAL[:5]):
                        for m in ((1, 2), (3, 7), (8, 12)) if not (th and greg) else ((1, 1), (2, 2), (3, 5), (6, 9), (10, 12)):
                            J.append(("job_iter_nominal", dict(mode=mode, fmt=fmt, reps=reps, dur_kw=dk, ranges={"M": m})))
    return J


def job_weight(fn, kw):
    return {"job_notations": 40, "job_iter_nominal": 20}.get(fn, 10) + (kw.get("reps") or 4) * 5


INFO = {
    "explanation": "C12: recurrences built by the real constructor in the three notations from a symbolic anchor and a symbolic "
                   "exact interval (one unit) or a concrete nominal interval; the first points are taken from the real iterator. "
                   "Exact: point j has instant anchor +/- j*length (bounded duration/end: n increasing points ending at the "
                   "anchor), exactly n points, one repetition or a zero interval yields just the anchor, an unbounded series "
                   "keeps going; the three notations of one finite series are == and iterate identically. Nominal: each point "
                   "is the previous one +/- the interval, the bounded series includes its anchor and increases strictly.",
    "bounds": {"quick": {"anchors": "ordinal dates on days 1-2, 59-60, 364-366 (exact) / every calendar date (nominal), any year -1 000 000..999 999, offsets +-3:59, any whole-second time",
                         "intervals": "hours 0..50, days 0..400 (gregorian start/duration and duration/end also seconds 0..4000, minutes 0..1500, weeks 0..60; start/second-point: hours 0..30, days 0..40); nominal (start/duration and duration/end): P1M, P2M, P1M2D, P1Y, P1Y1M",
                         "repetitions": "1, 2, 3 and unbounded (first 4 points)", "modes": "gregorian, 360day; 366day for the calendar-date anchors (nominal: gregorian)"},
               "thorough": {"repetitions": "1..4 and unbounded", "modes": "all 4 (seconds / minutes / weeks intervals and all three anchor windows in gregorian)"}},
    "outside": ["more than 4 repetitions / points", "multi-unit symbolic intervals", "min_point/max_point subsets",
                "anchors in calendar or week representation for exact intervals other than the stated windows (calendar: 13-16 Feb/Mar and 18-22 Dec with day intervals up to 40; week dates: weeks 8-10 and 52-53 of the years = 104 / 4 mod 400, day intervals up to 20)"],
    "assumptions": ["nominal single steps (p + interval) are the real additions verified by C05; this check compares the iterator against them"],
}
REQUIRED_SCENARIOS = {"all": ["anchor written as 24:00", "zero interval", "fmt1", "fmt3", "fmt4", "unbounded", "one repetition", "nominal interval",
                              "three notations"]}
