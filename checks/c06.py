"""C06 -- changing the UTC offset never changes the instant.

Real code: TimePoint.to_time_zone/to_utc, TimeZone.__init__, Duration.__sub__/
__mul__/__add__ (zone difference), TimePoint.__add__/_tick_over and the carry
helpers; in the direct sub-jobs also _cmp/__sub__/__hash__.
"""
import z3

import refmodel as R
from refmodel import PyOps as P
from symx import core
from symx.core import lift, conc
from symx.harness import sym_run
from . import common as C
from .c01 import sym_valid_point, sym_instant
from .c03 import install_range_summary

PROPERTY = "C06"
L = lift


def job_rezone(ctx, mode, rep, ranges=None, utc=False, direct=False, tzh=(-99, 99), dzh=(-99, 99)):
    data = ctx.data
    C.set_mode(data, mode)
    install_range_summary(data, mode)

    def make(e):
        i = {"p": C.point_input(e, data, "", rep, tzh=tzh)}
        if not utc:
            i["dh"] = e.var("dh", dzh[0], dzh[1])
            i["dm"] = e.var("dm", -59, 59)
        return i

    def body(i):
        p = i["p"]
        core.ENG.assume(sym_valid_point(mode, p, rep, True))
        if utc:
            r = p.to_utc()
            dh = dm = 0
        else:
            dh, dm = i["dh"], i["dm"]
            core.ENG.assume(bool(R.valid_tz(P, dh, dm)))
            r = p.to_time_zone(data.TimeZone(hours=dh, minutes=dm))
        o = {"r": r, "dh": dh, "dm": dm}
        if direct:
            o["eq"] = (p == r)
            o["eq_rev"] = (r == p)
            d = p - r
            o["diff"] = d
            o["diff_empty"] = not bool(d)
        return o

    def post(i, out):
        if out[0] != "ok":
            return [("no exception", False)]
        p, o = i["p"], out[1]
        r = o["r"]
        if not isinstance(r, data.TimePoint) or C.rep_of(r) != rep:
            return [("keeps the date representation", False)]
        tz = r._time_zone
        obs = [("valid local date and time fields", sym_valid_point(mode, r, rep, False)),
               ("carries exactly the requested offset",
                z3.And(L(tz._hours) == L(o["dh"]), L(tz._minutes) == L(o["dm"]))),
               ("same instant", L(sym_instant(mode, r, rep)) == L(sym_instant(mode, p, rep))),
               ("zone object well formed", tz._unknown is False and tz._weeks is None)]
        if direct:
            obs += [("p == rezoned(p)", bool(o["eq"])), ("rezoned(p) == p", bool(o["eq_rev"])),
                    ("p - rezoned(p) is empty", bool(o["diff_empty"]))]
        return obs

    def case_of(v, i):
        c = {"check": "rezone", "mode": mode, "rep": rep, "p": C.point_case(v, "", rep), "utc": utc}
        if not utc:
            c["dh"], c["dm"] = v["dh"], v["dm"]
        return c

    def scen(i):
        p = i["p"]
        d = {"24:00 input": conc(p._hour_of_day) == 24}
        if not utc:
            d["same offset requested"] = (conc(i["dh"]) == conc(p._time_zone._hours) and
                                          conc(i["dm"]) == conc(p._time_zone._minutes))
            d["destination -00:mm"] = conc(i["dh"]) == 0 and conc(i["dm"]) < 0
            d["destination beyond a day"] = abs(conc(i["dh"])) > 24
        return d

    def zsc(i):
        p = i["p"]
        d = {"24:00 input": L(p._hour_of_day) == 24}
        if not utc:
            d["same offset requested"] = z3.And(L(i["dh"]) == L(p._time_zone._hours),
                                                L(i["dm"]) == L(p._time_zone._minutes))
            d["24:00 input, same offset"] = z3.And(d["24:00 input"], d["same offset requested"])
            d["destination -00:mm"] = z3.And(L(i["dh"]) == 0, L(i["dm"]) < 0)
        return d

    return sym_run("rezone[%s,%s,%s%s%s]" % (mode, rep, ranges, ",utc" if utc else "", ",direct" if direct else ""),
                   make, None, body, post, case_of, scenarios=scen, scenarios_z3=zsc, ranges=ranges,
                   bounds={"years": "K in %s" % (C.KWIDE,), "source offset hours": list(tzh),
                           "destination offset hours": list(dzh) if not utc else "UTC"},
                   sample_every=500)


def replay(case, M):
    data = M.data
    mode = case["mode"]
    data.CALENDAR.set_mode(mode)
    try:
        p = C.build_point(data, case["p"])
        if case["utc"]:
            r, want = p.to_utc(), (0, 0)
            what = "%s .to_utc()" % C.describe_point(p)
        else:
            want = (case["dh"], case["dm"])
            if not R.valid_tz(P, *want):
                return False, "destination not a valid offset (precondition)"
            r = p.to_time_zone(data.TimeZone(hours=want[0], minutes=want[1]))
            what = "%s .to_time_zone(%+03d:%02d)" % (C.describe_point(p), want[0], abs(want[1]))
        desc = "%s = %s" % (what, C.describe_point(r))
        if C.rep_of(r) != C.rep_of(p):
            return True, desc + " changes representation"
        if not C.py_valid_point(mode, r, allow24=False):
            return True, desc + " has a field outside its legal range"
        if (r._time_zone._hours, r._time_zone._minutes) != want:
            return True, desc + " does not carry the requested offset"
        if C.py_instant(mode, r) != C.py_instant(mode, p):
            return True, desc + " changes the instant by %s s" % (C.py_instant(mode, r) - C.py_instant(mode, p))
        if not (p == r and r == p):
            return True, desc + " does not compare equal to the original"
        if hash(p) != hash(r):
            return True, desc + " hashes differently from the original"
        if bool(p - r) or bool(r - p):
            return True, desc + " has non-zero difference %s from the original" % (p - r)
        return False, desc
    finally:
        data.CALENDAR.set_mode("gregorian")


def jobs(tier):
    th = tier == "thorough"
    J = []
    doys = [(1, 40), (41, 320), (321, 366)]
    for mode in C.MODES4:
        greg = mode == "gregorian"
        for r in doys:
            J.append(("job_rezone", dict(mode=mode, rep="ord", ranges={"DOY": r})))
        J.append(("job_rezone", dict(mode=mode, rep="ord", utc=True)))
        months = range(1, 13) if (th or greg) else (2, 12)
        for m in months:
            J.append(("job_rezone", dict(mode=mode, rep="cal", ranges={"M": (m, m)})))
        J.append(("job_rezone", dict(mode=mode, rep="cal", utc=True)))
        if greg or th:
            zl = (-30, 30) if th else (-14, 14)
            for w in ([(1, 1), (2, 2), (3, 26), (27, 50), (51, 51), (52, 52), (53, 53)] if th else
                      [(1, 1), (2, 51), (52, 52), (53, 53)]):
                for wd in ((1, 2), (3, 5), (6, 7)):
                    J.append(("job_rezone", dict(mode=mode, rep="week", ranges={"W": w, "WD": wd}, tzh=zl, dzh=zl)))
            for w in ((1, 1), (2, 51), (52, 53)):
                J.append(("job_rezone", dict(mode=mode, rep="week", utc=True, ranges={"W": w}, tzh=zl)))
    # direct: ==, reversed ==, p - q empty computed by the real operators
    J.append(("job_rezone", dict(mode="gregorian", rep="ord", direct=True, tzh=(-14, 14), dzh=(-14, 14),
                                 ranges={"DOY": (1, 3)})))
    J.append(("job_rezone", dict(mode="gregorian", rep="ord", direct=True, tzh=(-14, 14), dzh=(-14, 14),
                                 ranges={"DOY": (364, 366)})))
    return J


def job_weight(fn, kw):
    if kw.get("direct"):
        return 100
    return {"week": 80, "cal": 40, "ord": 60}[kw["rep"]] if not kw.get("utc") else 10


INFO = {
    "explanation": "C06: p.to_time_zone(TimeZone(h, m)) and p.to_utc() for a symbolic valid TimePoint (3 representations, any "
                   "source offset incl. 24:00 inputs) and a symbolic destination offset built by the real TimeZone constructor; "
                   "per path: valid fields with 0<=h<24, representation kept, exactly the requested offset, same instant. "
                   "'Compares equal / hashes equal / zero difference' then follow from C02 and C04 (comparison, hash and "
                   "difference are functions of the instant there); they are also run directly through the real operators "
                   "on a reduced domain.",
    "bounds": {"quick": {"years": "-1 000 000..999 999", "offsets": "source and destination -99:59..+99:59 (week dates: +-14:59)",
                         "dates": "ordinal: all; calendar: all months (gregorian), Feb and Dec (other modes); week dates: gregorian",
                         "direct ==/-": "gregorian ordinal days 1-3 and 364-366, offsets +-14:59"},
               "thorough": {"dates": "calendar all months in all modes; week dates in all modes with offsets +-30:59"}},
    "outside": ["dumping with a literal zone in the format string (string layer; see C08/C17 status in DESIGN.md)",
                "to_local_time_zone (checked under C18 with the stubbed system zone)", "fractional seconds"],
    "assumptions": ["get_days_in_year_range runs as its closed form (discharged by C03 in the same source state)"],
}
REQUIRED_SCENARIOS = {"all": ["24:00 input", "same offset requested", "24:00 input, same offset", "destination -00:mm",
                              "destination beyond a day"]}
