"""C06 -- changing the UTC offset never changes the instant.

Real code: TimePoint.to_time_zone/to_utc, TimeZone.__init__, Duration.__sub__/
__mul__/__add__ (zone difference), TimePoint.__add__/_tick_over and the carry
helpers; in the direct sub-jobs also _cmp/__sub__/__hash__.
"""
import z3

import refmodel as R
from refmodel import PyOps as P
from symx import core
from symx.core import lift, conc
from symx.harness import sym_run
from . import common as C
from .c01 import sym_valid_point, sym_instant
from .c03 import install_range_summary

PROPERTY = "C06"
L = lift


def job_rezone(ctx, mode, rep, ranges=None, utc=False, direct=False, tzh=(-99, 99), dzh=(-99, 99)):
    data = ctx.data
    C.set_mode(data, mode)
    install_range_summary(data, mode)

    def make(e):
        i = {"p": C.point_input(e, data, "", rep, tzh=tzh)}
        if not utc:
            i["dh"] = e.var("dh", dzh[0], dzh[1])
            i["dm"] = e.var("dm", -59, 59)
        return i

    def body(i):
        p = i["p"]
        core.ENG.assume(sym_valid_point(mode, p, rep, True))
        if utc:
            r = p.to_utc()
            dh = dm = 0
        else:
            dh, dm = i["dh"], i["dm"]
            core.ENG.assume(bool(R.valid_tz(P, dh, dm)))
            r = p.to_time_zone(data.TimeZone(hours=dh, minutes=dm))
        o = {"r": r, "dh": dh, "dm": dm}
        if direct:
            o["eq"] = (p == r)
            o["eq_rev"] = (r == p)
            d = p - r
            o["diff"] = d
            o["diff_empty"] = not bool(d)
            o["hp"], o["hr"] = p.__hash__(), r.__hash__()
        return o

    def post(i, out):
        if out[0] != "ok":
            return [("no exception", False)]
        p, o = i["p"], out[1]
        r = o["r"]
        if not isinstance(r, data.TimePoint) or C.rep_of(r) != rep:
            return [("keeps the date representation", False)]
        tz = r._time_zone
        obs = [("valid local date and time fields", sym_valid_point(mode, r, rep, False)),
               ("carries exactly the requested offset",
                z3.And(L(tz._hours) == L(o["dh"]), L(tz._minutes) == L(o["dm"]))),
               ("same instant", L(sym_instant(mode, r, rep)) == L(sym_instant(mode, p, rep))),
               ("zone object well formed", tz._unknown is False and tz._weeks is None)]
        if direct:
            obs += [("p == rezoned(p)", bool(o["eq"])), ("rezoned(p) == p", bool(o["eq_rev"])),
                    ("p - rezoned(p) is empty", bool(o["diff_empty"])),
                    ("hash key of p equals hash key of rezoned(p)", core.hashkey_eq(o["hp"], o["hr"]))]
        return obs

    def case_of(v, i):
        c = {"check": "rezone", "mode": mode, "rep": rep, "p": C.point_case(v, "", rep), "utc": utc}
        if not utc:
            c["dh"], c["dm"] = v["dh"], v["dm"]
        return c

    def scen(i):
        p = i["p"]
        d = {"24:00 input": conc(p._hour_of_day) == 24}
        if not utc:
            d["same offset requested"] = (conc(i["dh"]) == conc(p._time_zone._hours) and
                                          conc(i["dm"]) == conc(p._time_zone._minutes))
            d["destination -00:mm"] = conc(i["dh"]) == 0 and conc(i["dm"]) < 0
            d["destination beyond a day"] = abs(conc(i["dh"])) > 24
        return d

    def zsc(i):
        p = i["p"]
        d = {"24:00 input": L(p._hour_of_day) == 24}
        if not utc:
            d["same offset requested"] = z3.And(L(i["dh"]) == L(p._time_zone._hours),
                                                L(i["dm"]) == L(p._time_zone._minutes))
            d["24:00 input, same offset"] = z3.And(d["24:00 input"], d["same offset requested"])
            d["destination -00:mm"] = z3.And(L(i["dh"]) == 0, L(i["dm"]) < 0)
        return d

    return sym_run("rezone[%s,%s,%s%s%s]" % (mode, rep, ranges, ",utc" if utc else "", ",direct" if direct else ""),
                   make, None, body, post, case_of, scenarios=scen, scenarios_z3=zsc, ranges=ranges,
                   bounds={"years": "K in %s" % (C.KWIDE,), "source offset hours": list(tzh),
                           "destination offset hours": list(dzh) if not utc else "UTC"},
                   sample_every=500)


# ---------------------------------------------------------------------------
# dumping with a format that spells out a literal zone
DATE_FORMS = {  # name -> (format text, representation, tokens)
    "cal-ext": ("CCYY-MM-DD", "cal", [("Y", 4), "-", ("M", 2), "-", ("D", 2)]),
    "cal-bas": ("CCYYMMDD", "cal", [("Y", 4), ("M", 2), ("D", 2)]),
    "ord-ext": ("CCYY-DDD", "ord", [("Y", 4), "-", ("J", 3)]),
    "ord-bas": ("CCYYDDD", "ord", [("Y", 4), ("J", 3)]),
    "week-ext": ("CCYY-Www-D", "week", [("Y", 4), "-", "W", ("W", 2), "-", ("d", 1)]),
    "week-bas": ("CCYYWwwD", "week", [("Y", 4), "W", ("W", 2), ("d", 1)]),
    "xcal-ext": ("+XCCYY-MM-DD", "cal", [("S", 1), ("Y", 6), "-", ("M", 2), "-", ("D", 2)]),
    "xord-bas": ("+XCCYYDDD", "ord", [("S", 1), ("Y", 6), ("J", 3)]),
    "xweek-ext": ("+XCCYY-Www-D", "week", [("S", 1), ("Y", 6), "-", "W", ("W", 2), "-", ("d", 1)]),
}
TIME_FORMS = {"ext": ("hh:mm:ss", [("h", 2), ":", ("m", 2), ":", ("s", 2)]),
              "bas": ("hhmmss", [("h", 2), ("m", 2), ("s", 2)])}
# literal zone spellings and the offset each denotes (minutes carry the hour's sign)
ZONES = {"Z": (0, 0), "+00:00": (0, 0), "+05:30": (5, 30), "-0330": (-3, -30), "-00:30": (0, -30), "+00:45": (0, 45),
         "+14": (14, 0), "-12": (-12, 0), "+1245": (12, 45), "-23:59": (-23, -59), "+99:59": (99, 59), "-99:59": (-99, -59),
         "+01": (1, 0), "-01:00": (-1, 0)}


def job_dump(ctx, mode, src_rep, dform, tform, zone, ranges=None, tzh=(-99, 99)):
    """TimePointDumper.dump(p, <date>T<time><literal zone>): the text spells, in the literal zone, valid local
    fields of the instant of p (decoded here digit by digit; oracle instant), and ends with the literal."""
    from symx import strs
    from symx.strs import SymStr
    data, dumpers = ctx.data, ctx.dumpers
    C.set_mode(data, mode)
    install_range_summary(data, mode)
    from .c03 import install_weeks_summary
    install_weeks_summary(data, mode)
    dtext, frep, dtoks = DATE_FORMS[dform]
    ttext, ttoks = TIME_FORMS[tform]
    fmt = dtext + "T" + ttext + zone
    zh, zm = ZONES[zone]
    ned = 2 if dform.startswith("x") else 0
    DUMPER = dumpers.TimePointDumper(num_expanded_year_digits=ned)
    K, E = (0, 24), ((-99, 99) if ned else None)
    ylim = (-999998, 999998) if ned else (1, 9998)
    toks = dtoks + ["T"] + ttoks + list(zone)

    def make(e):
        p = C.point_input(e, data, "", src_rep, K=K, tzh=tzh, E=E)
        p._num_expanded_year_digits = ned
        return {"p": p}

    def pre(i):
        p = i["p"]
        return z3.And(C.m_valid_point(mode, p, src_rep, True), L(p._year) >= ylim[0], L(p._year) <= ylim[1])

    def body(i):
        p = i["p"]
        s = DUMPER.dump(p, fmt)
        els = list(SymStr.lift(s))
        # decode by position; every non-field character must be the format's literal
        f, pos, lits_ok = {}, 0, True
        for t in toks:
            if isinstance(t, str):
                for ch in t:
                    c = els[pos] if pos < len(els) else None
                    pos += 1
                    if c is None or not bool(strs.char_eq(c, ch)):
                        lits_ok = False
                continue
            kind, w = t
            part = els[pos:pos + w]
            pos += w
            if len(part) != w:
                lits_ok = False
                break
            if kind == "S":
                c = part[0]
                if bool(strs.char_eq(c, "-")):
                    f["sign"] = -1
                elif bool(strs.char_eq(c, "+")):
                    f["sign"] = 1
                else:
                    lits_ok = False
                    f["sign"] = 1
                continue
            v = 0
            for c in part:
                if not bool(strs.char_is_digit(c)):
                    lits_ok = False
                    break
                v = v * 10 + ((c - 48) if strs._issym(c) else (ord(c) - 48))
            f[kind] = v
        if pos != len(els):
            lits_ok = False
        return s, f, lits_ok

    def post(i, out):
        if out[0] != "ok":
            return [("dump with a literal zone renders", False)]
        p = i["p"]
        s, f, lits_ok = out[1]
        if not lits_ok or "Y" not in f:
            return [("the text has the format's shape and ends with the literal zone", False)]
        y = f["Y"] * f.get("sign", 1)
        if frep == "cal":
            q = C.raw_point(data, y, "cal", f["M"], f["D"], f["h"], f["m"], f["s"], zh, zm)
        elif frep == "ord":
            q = C.raw_point(data, y, "ord", f["J"], None, f["h"], f["m"], f["s"], zh, zm)
        else:
            q = C.raw_point(data, y, "week", f["W"], f["d"], f["h"], f["m"], f["s"], zh, zm)
        same_zone = z3.And(L(p._time_zone._hours) == zh, L(p._time_zone._minutes) == zm)
        cs = [C.m_valid_point(mode, q, frep, True),
              z3.Implies(L(q._hour_of_day) == 24, z3.And(L(p._hour_of_day) == 24, same_zone)),
              L(C.m_instant(mode, q, frep)) == L(C.m_instant(mode, p, src_rep))]
        if ned:
            cs.append(z3.Implies(L(f["Y"]) == 0, z3.BoolVal(f.get("sign", 1) == 1)))
        return [("the text has the format's shape and ends with the literal zone", True),
                ("the spelled local fields are valid (24:00 only for a 24:00 point already in that zone, no negative "
                 "zero year) and, read in the literal zone, denote the instant of p", z3.And(cs))]

    def case_of(v, i):
        return {"check": "dump", "mode": mode, "rep": src_rep, "fmt": fmt, "ned": ned, "zone": [zh, zm],
                "frep": frep, "p": C.point_case(v, "", src_rep)}

    def scen(i):
        p = i["p"]
        return {"dump: 24:00 input": conc(p._hour_of_day) == 24,
                "dump: point already in the literal zone": conc(p._time_zone._hours) == zh and conc(p._time_zone._minutes) == zm}

    def zsc(i):
        p = i["p"]
        return {"dump: 24:00 input": L(p._hour_of_day) == 24,
                "dump: point already in the literal zone": z3.And(L(p._time_zone._hours) == zh, L(p._time_zone._minutes) == zm)}

    return sym_run("dump[%s,%s,%s,%s]" % (mode, src_rep, fmt, ranges), make, pre, body, post, case_of,
                   scenarios=scen, scenarios_z3=zsc, ranges=ranges,
                   bounds={"format": fmt, "years": "%s..%s" % ylim, "source offset hours": list(tzh)}, sample_every=500)


def replay(case, M):
    data = M.data
    mode = case["mode"]
    data.CALENDAR.set_mode(mode)
    try:
        if case.get("check") == "dump":
            return replay_dump(case, M)
        p = C.build_point(data, case["p"])
        if case["utc"]:
            r, want = p.to_utc(), (0, 0)
            what = "%s .to_utc()" % C.describe_point(p)
        else:
            want = (case["dh"], case["dm"])
            if not R.valid_tz(P, *want):
                return False, "destination not a valid offset (precondition)"
            r = p.to_time_zone(data.TimeZone(hours=want[0], minutes=want[1]))
            what = "%s .to_time_zone(%+03d:%02d)" % (C.describe_point(p), want[0], abs(want[1]))
        desc = "%s = %s" % (what, C.describe_point(r))
        if C.rep_of(r) != C.rep_of(p):
            return True, desc + " changes representation"
        if not C.py_valid_point(mode, r, allow24=False):
            return True, desc + " has a field outside its legal range"
        if (r._time_zone._hours, r._time_zone._minutes) != want:
            return True, desc + " does not carry the requested offset"
        if C.py_instant(mode, r) != C.py_instant(mode, p):
            return True, desc + " changes the instant by %s s" % (C.py_instant(mode, r) - C.py_instant(mode, p))
        if not (p == r and r == p):
            return True, desc + " does not compare equal to the original"
        if hash(p) != hash(r):
            return True, desc + " hashes differently from the original"
        if bool(p - r) or bool(r - p):
            return True, desc + " has non-zero difference %s from the original" % (p - r)
        return False, desc
    finally:
        data.CALENDAR.set_mode("gregorian")


def replay_dump(case, M):
    """decode the dumped text with plain string slicing and compare instants through the concrete oracle"""
    import re as _re
    data, dumpers = M.data, M.dumpers
    mode, fmt, ned = case["mode"], case["fmt"], case["ned"]
    p = C.build_point(data, case["p"], ned=ned)
    what = "TimePointDumper(%d).dump(%s, %r)" % (ned, C.describe_point(p), fmt)
    try:
        s = dumpers.TimePointDumper(num_expanded_year_digits=ned).dump(p, fmt)
    except Exception as exc:
        return True, "%s raised %s: %s" % (what, type(exc).__name__, exc)
    frep = case["frep"]
    date_re = {"cal": r"(?P<M>[0-9]{2})-?(?P<D>[0-9]{2})", "ord": r"(?P<J>[0-9]{3})",
               "week": r"W(?P<W>[0-9]{2})-?(?P<d>[0-9])"}[frep]
    # the literal zone is whatever follows 'ss' in the format
    zone_text = fmt.split("ss", 1)[1]
    pat = (r"^(?P<S>[-+])?(?P<Y>[0-9]{%d})-?" % (4 + ned)) + date_re + \
        r"T(?P<h>[0-9]{2}):?(?P<m>[0-9]{2}):?(?P<s>[0-9]{2})" + _re.escape(zone_text) + "$"
    m = _re.match(pat, s)
    if not m or bool(ned) != bool(m.group("S")):
        return True, "%s = %r does not have the format's shape / literal zone" % (what, s)
    g = {k: int(v) for k, v in m.groupdict().items() if v is not None and k != "S"}
    y = -g["Y"] if m.group("S") == "-" else g["Y"]
    if m.group("S") == "-" and g["Y"] == 0:
        return True, "%s = %r spells a negative zero year" % (what, s)
    kw = {"year": y, "hour_of_day": g["h"], "minute_of_hour": g["m"], "second_of_minute": g["s"],
          "time_zone_hour": case["zone"][0], "time_zone_minute": case["zone"][1]}
    if frep == "cal":
        kw["month_of_year"], kw["day_of_month"] = g["M"], g["D"]
    elif frep == "ord":
        kw["day_of_year"] = g["J"]
    else:
        kw["week_of_year"], kw["day_of_week"] = g["W"], g["d"]
    q = C.raw_point(data, *_raw_args(kw, frep))
    if not C.py_valid_point(mode, q, allow24=True):
        return True, "%s = %r spells a field outside its legal range" % (what, s)
    if g["h"] == 24 and not (p._hour_of_day == 24 and (p._time_zone._hours, p._time_zone._minutes) == tuple(case["zone"])):
        return True, "%s = %r spells 24:00 for a point that is not a 24:00 point of that zone" % (what, s)
    di = C.py_instant(mode, q) - C.py_instant(mode, p)
    if di:
        return True, "%s = %r denotes an instant %+d s away from the original" % (what, s, di)
    return False, "%s = %r" % (what, s)


def _raw_args(kw, rep):
    if rep == "cal":
        f1, f2 = kw["month_of_year"], kw["day_of_month"]
    elif rep == "ord":
        f1, f2 = kw["day_of_year"], None
    else:
        f1, f2 = kw["week_of_year"], kw["day_of_week"]
    return (kw["year"], rep, f1, f2, kw["hour_of_day"], kw["minute_of_hour"], kw["second_of_minute"],
            kw["time_zone_hour"], kw["time_zone_minute"])


W_PINS = {"c": (0, 0), "q": (5, 5), "s": (0, 0)}       # week dates: year = 400K + 20 (53 weeks; the cycle index K stays symbolic)
W_PINS2 = {"c": (3, 3), "q": (24, 24), "s": (3, 3)}    # ... and 400K + 399 (52 weeks, year before a leap century year)


def dump_jobs(th):
    J = []
    z14 = (-14, 14)
    g = "gregorian"
    D = lambda **k: J.append(("job_dump", k))
    # year boundary, leap day, first days: calendar forms
    D(mode=g, src_rep="cal", dform="cal-ext", tform="ext", zone="+05:30", ranges={"M": (12, 12), "D": (30, 31)}, tzh=z14)
    D(mode=g, src_rep="cal", dform="cal-bas", tform="bas", zone="-99:59", ranges={"M": (1, 1), "D": (1, 4)}, tzh=z14)
    D(mode=g, src_rep="cal", dform="xcal-ext", tform="ext", zone="-00:30", ranges={"M": (2, 2), "D": (28, 29)}, tzh=z14)
    D(mode=g, src_rep="cal", dform="cal-ext", tform="ext", zone="Z", ranges={"M": (3, 3), "D": (1, 1)}, tzh=z14)
    D(mode=g, src_rep="cal", dform="cal-ext", tform="bas", zone="-0330", ranges={"M": (2, 2), "D": (28, 29)}, tzh=z14)
    D(mode=g, src_rep="cal", dform="cal-bas", tform="ext", zone="+99:59", ranges={"M": (12, 12), "D": (27, 28)}, tzh=z14)
    # ordinal forms
    D(mode=g, src_rep="ord", dform="ord-ext", tform="ext", zone="Z", ranges={"DOY": (365, 366)}, tzh=z14)
    D(mode=g, src_rep="ord", dform="xord-bas", tform="bas", zone="+14", ranges={"DOY": (1, 1)}, tzh=z14)
    D(mode=g, src_rep="ord", dform="ord-bas", tform="bas", zone="-23:59", ranges={"DOY": (1, 2)}, tzh=z14)
    D(mode=g, src_rep="ord", dform="ord-ext", tform="ext", zone="+00:45", ranges={"DOY": (59, 61)}, tzh=z14)
    # week forms (year residue pinned, cycle index symbolic) and representation changes made by the format
    D(mode=g, src_rep="week", dform="week-bas", tform="bas", zone="+1245", ranges=dict(W_PINS, W=(1, 1)), tzh=z14)
    D(mode=g, src_rep="week", dform="week-ext", tform="ext", zone="Z", ranges=dict(W_PINS, W=(52, 53)), tzh=z14)
    D(mode=g, src_rep="week", dform="week-ext", tform="ext", zone="-01:00", ranges=dict(W_PINS2, W=(52, 52)), tzh=z14)
    D(mode=g, src_rep="week", dform="cal-ext", tform="ext", zone="-12", ranges=dict(W_PINS, W=(52, 53)), tzh=z14)
    D(mode=g, src_rep="cal", dform="week-ext", tform="ext", zone="+01", ranges=dict(W_PINS, M=(12, 12), D=(28, 31)), tzh=z14)
    D(mode=g, src_rep="ord", dform="cal-bas", tform="bas", zone="+00:00", ranges={"DOY": (59, 60)}, tzh=z14)
    # other calendars
    D(mode="360day", src_rep="cal", dform="ord-ext", tform="ext", zone="+00:45", ranges={"M": (12, 12), "D": (29, 30)}, tzh=z14)
    D(mode="360day", src_rep="cal", dform="cal-ext", tform="ext", zone="-0330", ranges={"M": (2, 2), "D": (29, 30)}, tzh=z14)
    D(mode="365day", src_rep="ord", dform="cal-ext", tform="ext", zone="+14", ranges={"DOY": (364, 365)}, tzh=z14)
    D(mode="366day", src_rep="cal", dform="ord-bas", tform="bas", zone="-12", ranges={"M": (2, 3), "D": (1, 1)}, tzh=z14)
    if th:
        full = (-99, 99)
        for zone in ZONES:
            D(mode=g, src_rep="cal", dform="cal-ext", tform="ext", zone=zone, ranges={"M": (12, 12), "D": (31, 31)}, tzh=full)
            D(mode=g, src_rep="cal", dform="cal-bas", tform="bas", zone=zone, ranges={"M": (1, 1), "D": (1, 1)}, tzh=full)
            D(mode=g, src_rep="ord", dform="ord-ext", tform="ext", zone=zone, ranges={"DOY": (365, 366)}, tzh=full)
            D(mode=g, src_rep="ord", dform="xord-bas", tform="bas", zone=zone, ranges={"DOY": (1, 1)}, tzh=z14)
            D(mode=g, src_rep="week", dform="week-ext", tform="ext", zone=zone, ranges=dict(W_PINS, W=(52, 53)), tzh=full)
            D(mode=g, src_rep="week", dform="week-bas", tform="bas", zone=zone, ranges=dict(W_PINS2, W=(1, 1)), tzh=full)
        for m in (2, 6, 9, 12):
            D(mode=g, src_rep="cal", dform="cal-ext", tform="ext", zone="+05:30", ranges={"M": (m, m)}, tzh=z14)
            D(mode="360day", src_rep="cal", dform="cal-bas", tform="bas", zone="-0330", ranges={"M": (m, m)}, tzh=z14)
    return J


def jobs(tier):
    th = tier == "thorough"
    J = dump_jobs(th)
    doys = [(1, 40), (41, 320), (321, 366)]
    for mode in C.MODES4:
        greg = mode == "gregorian"
        for r in doys:
            J.append(("job_rezone", dict(mode=mode, rep="ord", ranges={"DOY": r})))
        J.append(("job_rezone", dict(mode=mode, rep="ord", utc=True)))
        months = range(1, 13) if (th or greg) else (2, 12)
        for m in months:
            J.append(("job_rezone", dict(mode=mode, rep="cal", ranges={"M": (m, m)})))
        J.append(("job_rezone", dict(mode=mode, rep="cal", utc=True)))
        if greg or th:
            zl = (-30, 30) if th else (-14, 14)
            for w in ([(1, 1), (2, 2), (3, 26), (27, 50), (51, 51), (52, 52), (53, 53)] if th else
                      [(1, 1), (2, 51), (52, 52), (53, 53)]):
                for wd in ((1, 2), (3, 5), (6, 7)):
                    J.append(("job_rezone", dict(mode=mode, rep="week", ranges={"W": w, "WD": wd}, tzh=zl, dzh=zl)))
            for w in ((1, 1), (2, 51), (52, 53)):
                J.append(("job_rezone", dict(mode=mode, rep="week", utc=True, ranges={"W": w}, tzh=zl)))
    # direct: ==, reversed ==, p - q empty computed by the real operators
    J.append(("job_rezone", dict(mode="gregorian", rep="ord", direct=True, tzh=(-14, 14), dzh=(-14, 14),
                                 ranges={"DOY": (1, 3)})))
    J.append(("job_rezone", dict(mode="gregorian", rep="ord", direct=True, tzh=(-14, 14), dzh=(-14, 14),
                                 ranges={"DOY": (364, 366)})))
    return J


def job_weight(fn, kw):
    if fn == "job_dump":
        return 90
    if kw.get("direct"):
        return 100
    return {"week": 80, "cal": 40, "ord": 60}[kw["rep"]] if not kw.get("utc") else 10


INFO = {
    "explanation": "C06: p.to_time_zone(TimeZone(h, m)) and p.to_utc() for a symbolic valid TimePoint (3 representations, any "
                   "source offset incl. 24:00 inputs) and a symbolic destination offset built by the real TimeZone constructor; "
                   "per path: valid fields with 0<=h<24, representation kept, exactly the requested offset, same instant. "
                   "'Compares equal / hashes equal / zero difference' then follow from C02 and C04 (comparison, hash and "
                   "difference are functions of the instant there); they are also run directly through the real operators "
                   "on a reduced domain. job_dump: TimePointDumper.dump(p, <date>T<time><literal zone>) for a symbolic point: the "
                   "text is decoded digit by digit and must spell valid local fields that, read in the literal zone, denote "
                   "the instant of p, in the format's shape and ending with the literal.",
    "bounds": {"quick": {"dump formats": "20 jobs: 9 date forms x basic/extended time x 14 literal zones (Z, +-hh, +-hhmm, "
                                         "+-hh:mm, -00:30, +-99:59) in windows around New Year, the leap day and week 1/52/53; "
                                         "years 1..9998 (4 digits) or +-999 998 (expanded), source offsets +-14:59; week-date "
                                         "points with the year residue pinned (400K+20, 400K+399)",
                         "years": "-1 000 000..999 999", "offsets": "source and destination -99:59..+99:59 (week dates: +-14:59)",
                         "dates": "ordinal: all; calendar: all months (gregorian), Feb and Dec (other modes); week dates: gregorian",
                         "direct ==/-": "gregorian ordinal days 1-3 and 364-366, offsets +-14:59"},
               "thorough": {"dates": "calendar all months in all modes; week dates in all modes with offsets +-30:59",
                            "dump formats": "all 14 literal zones x 6 date/time forms at the year boundary with source offsets -99:59..+99:59; whole months 2, 6, 9, 12"}},
    "outside": ["literal-zone dump formats: arbitrary offsets inside format strings and dates away from the listed windows "
                "(the literal spellings are a fixed set of 14; the re-parse of such dumps is C08's job_format)",
                "to_local_time_zone (checked under C18 with the stubbed system zone)", "fractional seconds"],
    "assumptions": ["get_days_in_year_range runs as its closed form (discharged by C03 in the same source state)"],
}
REQUIRED_SCENARIOS = {"all": ["24:00 input", "same offset requested", "24:00 input, same offset", "destination -00:mm",
                              "destination beyond a day", "dump: 24:00 input", "dump: point already in the literal zone"]}
