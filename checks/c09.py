"""C09 -- impossible dates and malformed text are rejected, cleanly.

Field clause (this file, integer level): the real TimePoint constructor
(TimePoint.__init__, _type_checker, _int_caster, _check_bounds, _bounds_checker,
TimeZone.__init__) on symbolic integer fields in windows around the legal
ranges: accepted <=> oracle-valid in the active mode; refusal is a ValueError
subclass.  Text clause: see c09 text jobs (string layer).
"""
import z3

import refmodel as R
from symx import core
from symx.core import lift, conc
from symx.harness import sym_run
from . import common as C
from .c03 import install_range_summary

PROPERTY = "C09"
L = lift
M = core.MOps

WIN = {"month_of_year": (-2, 15), "day_of_month": (-2, 34), "day_of_year": (-2, 370), "week_of_year": (-2, 56),
       "day_of_week": (-2, 10), "hour_of_day": (-2, 27), "minute_of_hour": (-2, 62), "second_of_minute": (-2, 62),
       "time_zone_hour": (-101, 101), "time_zone_minute": (-62, 62)}
SHORT = {"month_of_year": "M", "day_of_month": "D", "day_of_year": "DOY", "week_of_year": "W", "day_of_week": "WD",
         "hour_of_day": "h", "minute_of_hour": "mi", "second_of_minute": "se", "time_zone_hour": "tzh",
         "time_zone_minute": "tzm"}
FORMS = {
    "cal": ["month_of_year", "day_of_month"],
    "cal-month-only": ["month_of_year"],
    "cal-day-only": ["day_of_month"],
    "ord": ["day_of_year"],
    "week": ["week_of_year", "day_of_week"],
    "week-only": ["week_of_year"],
    "weekday-only": ["day_of_week"],
    "year-only": [],
    "conflict month+week": ["month_of_year", "week_of_year"],
    "conflict day+weekday": ["day_of_month", "day_of_week"],
    "conflict month+doy": ["month_of_year", "day_of_year"],
    "conflict week+doy": ["week_of_year", "day_of_year"],
}
TIMES = {"hms": ["hour_of_day", "minute_of_hour", "second_of_minute"], "hm": ["hour_of_day", "minute_of_hour"],
         "h": ["hour_of_day"], "none": []}
ZONES = {"hm": ["time_zone_hour", "time_zone_minute"], "h": ["time_zone_hour"], "m": ["time_zone_minute"], "none": []}


def job_fields(ctx, mode, form, tkind, zkind, ranges=None, K=C.KWIDE, pins=None):
    data = ctx.data
    C.set_mode(data, mode)
    install_range_summary(data, mode)
    names = FORMS[form] + TIMES[tkind] + ZONES[zkind]

    def make(e):
        i = {"year": C.year_input(e, "", K)}
        for n in names:
            i[n] = e.var(SHORT[n], *WIN[n])
        return i

    def body(i):
        return data.TimePoint(**i)

    def oracle(i):
        """merged z3 validity of the field tuple under the constructor's
        documented defaults (absent month/day -> 1, absent time -> 0, zone -> UTC)"""
        y = i["year"]
        g = i.get
        if form.startswith("conflict"):
            # two date notations at once: only acceptable if the library can tell
            # them apart as "not specified" (zero is falsy) -- the statement has no
            # such case among valid inputs, so a conflict must be refused unless one
            # side is the value 0 AND the other side is itself valid... we stay
            # conservative: any accepted conflict must still be a valid date in
            # exactly one notation with the other fields being 0 and out of range
            # (hence refused).  So: never valid.
            date_ok = False
        elif form in ("cal", "cal-month-only", "cal-day-only"):
            date_ok = R.valid_cal(M, mode, y, g("month_of_year", 1), g("day_of_month", 1))
        elif form == "ord":
            date_ok = R.valid_ord(M, mode, y, g("day_of_year"))
        elif form in ("week", "week-only", "weekday-only"):
            date_ok = R.valid_week(M, mode, y, g("week_of_year", 1), g("day_of_week", 1))
        else:
            date_ok = True
        time_ok = R.valid_time(M, g("hour_of_day", 0), g("minute_of_hour", 0), g("second_of_minute", 0), allow24=True)
        tz_ok = R.valid_tz(M, g("time_zone_hour", 0), g("time_zone_minute", 0))
        return core.zbool(M.And(date_ok, time_ok, tz_ok))[0]

    def post(i, out):
        valid = oracle(i)
        if out[0] == "exc":
            exc = out[1]
            obs = [("refusal is a ValueError subclass", isinstance(exc, ValueError))]
            if isinstance(exc, ValueError):
                obs.append(("every in-range combination is accepted", z3.Not(valid)))
            return obs
        p = out[1]
        obs = [("no impossible date-time is admitted", valid)]
        # the accepted object carries exactly the given values
        want = {"_year": i["year"]}
        for n in names:
            want["_" + n] = i[n]
        same = []
        for sl, v in want.items():
            if sl.startswith("_time_zone"):
                got = getattr(p._time_zone, "_hours" if sl.endswith("hour") else "_minutes")
            else:
                got = getattr(p, sl)
            same.append(L(got) == L(v) if got is not None else z3.BoolVal(False))
        obs.append(("accepted object carries the given values", z3.And(same)))
        return obs

    def case_of(v, i):
        kw = {"year": C.year_value(v)}
        for n in names:
            kw[n] = v[SHORT[n]]
        return {"check": "fields", "mode": mode, "form": form, "kw": kw}

    def zsc(i):
        d = {}
        g = i.get
        if "month_of_year" in i:
            d["month 0"] = L(i["month_of_year"]) == 0
            d["month 13"] = L(i["month_of_year"]) == 13
        if form == "cal":
            d["30 feb"] = z3.And(L(i["month_of_year"]) == 2, L(i["day_of_month"]) == 30)
            d["29 feb"] = z3.And(L(i["month_of_year"]) == 2, L(i["day_of_month"]) == 29)
            d["31st"] = L(i["day_of_month"]) == 31
        if form == "ord":
            d["day 366"] = L(i["day_of_year"]) == 366
            d["day 0"] = L(i["day_of_year"]) == 0
        if form == "week":
            d["week 53"] = L(i["week_of_year"]) == 53
            d["weekday 8"] = L(i["day_of_week"]) == 8
        if tkind == "hms":
            d["24:00:00"] = z3.And(L(i["hour_of_day"]) == 24, L(i["minute_of_hour"]) == 0, L(i["second_of_minute"]) == 0)
            d["24:01"] = z3.And(L(i["hour_of_day"]) == 24, L(i["minute_of_hour"]) == 1)
            d["second 60"] = L(i["second_of_minute"]) == 60
        if zkind == "hm":
            d["zone parts of conflicting sign"] = z3.And(L(i["time_zone_hour"]) > 0, L(i["time_zone_minute"]) < 0)
            d["zone -00:30"] = z3.And(L(i["time_zone_hour"]) == 0, L(i["time_zone_minute"]) == -30)
        return d

    return sym_run("fields[%s,%s,%s,%s,%s]" % (mode, form, tkind, zkind, ranges), make, None, body, post, case_of,
                   scenarios_z3=zsc, ranges=ranges, pins=pins,
                   scenarios=lambda i: {"year 0": conc(i["year"]) == 0, "negative year": conc(i["year"]) < 0},
                   bounds={"year": "K in %s" % (K,), "windows": {n: WIN[n] for n in names}}, sample_every=100)


DEC_FRACTIONS = [0.5, 0.25, 0.0, 0.984375]      # dyadic: exact in the rational proxy


TRUNC_FORMS = [["day_of_week"], ["week_of_year", "day_of_week"], ["week_of_year"], ["day_of_month"], ["month_of_year", "day_of_month"],
               ["month_of_year"], ["day_of_year"], ["hour_of_day"], ["hour_of_day", "minute_of_hour"], ["minute_of_hour"],
               ["minute_of_hour", "second_of_minute"], ["second_of_minute"], ["day_of_week", "hour_of_day"],
               ["day_of_month", "hour_of_day", "minute_of_hour", "second_of_minute"],
               ["day_of_week", "time_zone_hour", "time_zone_minute"], ["hour_of_day", "time_zone_hour", "time_zone_minute"]]
GREG_LEAP_MONTHS = [31, 29, 31, 30, 31, 30, 31, 31, 30, 31, 30, 31]


def trunc_valid(ops, kw):
    """validity of the fields of a truncated (year-less) point, Gregorian calendar: each named field is in the
    range it can take in some year (month 1-12, day within the month's longest length - 31 when no month is named,
    day-of-year 1-366, week 1-53, weekday 1-7, time of day and zone as for full points)"""
    g = kw.get
    cs = []
    if "month_of_year" in kw:
        cs.append(ops.And(g("month_of_year") >= 1, g("month_of_year") <= 12))
    if "day_of_month" in kw:
        d = g("day_of_month")
        if "month_of_year" in kw:
            m = g("month_of_year")
            cs.append(ops.And(d >= 1, ops.Or(*[ops.And(m == k + 1, d <= n) for k, n in enumerate(GREG_LEAP_MONTHS)])))
        else:
            cs.append(ops.And(d >= 1, d <= 31))
    if "day_of_year" in kw:
        cs.append(ops.And(g("day_of_year") >= 1, g("day_of_year") <= 366))
    if "week_of_year" in kw:
        cs.append(ops.And(g("week_of_year") >= 1, g("week_of_year") <= 53))
    if "day_of_week" in kw:
        cs.append(ops.And(g("day_of_week") >= 1, g("day_of_week") <= 7))
    cs.append(R.valid_time(ops, g("hour_of_day", 0), g("minute_of_hour", 0), g("second_of_minute", 0), allow24=True))
    cs.append(R.valid_tz(ops, g("time_zone_hour", 0), g("time_zone_minute", 0)))
    return ops.And(*cs)


def job_fields_truncated(ctx, names):
    """the constructor on truncated (year-less) points: accepted <=> every named field is in range"""
    data = ctx.data
    C.set_mode(data, "gregorian")

    def make(e):
        return {n: e.var(SHORT[n], *WIN[n]) for n in names}

    def body(i):
        return data.TimePoint(truncated=True, **i)

    def post(i, out):
        valid = core.zbool(trunc_valid(M, i))[0]
        if out[0] == "exc":
            exc = out[1]
            obs = [("refusal is a ValueError subclass", isinstance(exc, ValueError))]
            if isinstance(exc, ValueError):
                obs.append(("every in-range combination is accepted", z3.Not(valid)))
            return obs
        p = out[1]
        same = []
        for n in names:
            got = getattr(p._time_zone, "_hours" if n.endswith("hour") else "_minutes") if n.startswith("time_zone") else getattr(p, "_" + n)
            same.append(L(got) == L(i[n]) if got is not None else z3.BoolVal(False))
        return [("no impossible field is admitted in a truncated point", valid),
                ("accepted truncated point carries the given values", z3.And(same)),
                ("it is a truncated point", bool(p._truncated))]

    def case_of(v, i):
        return {"check": "fields-truncated", "mode": "gregorian", "kw": {n: v[SHORT[n]] for n in names}}

    return sym_run("fields-truncated[%s]" % ",".join(names), make, None, body, post, case_of,
                   scenarios_z3=lambda i: ({"truncated: weekday 8": L(i["day_of_week"]) == 8, "truncated: weekday 0": L(i["day_of_week"]) == 0}
                                           if "day_of_week" in i else {}),
                   bounds={"fields": names, "windows": {n: WIN[n] for n in names}})


def job_fields_decimal(ctx, mode, unit, frac):
    """the decimal forms: hour / minute / second given as an integer plus a (concrete) fraction; the integer parts
    are symbolic in their windows.  24:00 is the end of the day only with zero minutes, seconds and fractions."""
    data = ctx.data
    C.set_mode(data, mode)
    install_range_summary(data, mode)
    names = {"hour": ["hour_of_day"], "minute": ["hour_of_day", "minute_of_hour"],
             "second": ["hour_of_day", "minute_of_hour", "second_of_minute"]}[unit]
    dec_kw = {"hour": "hour_of_day_decimal", "minute": "minute_of_hour_decimal", "second": "second_of_minute_decimal"}[unit]

    def make(e):
        i = {"year": C.year_input(e, "", C.KWIDE), "month_of_year": 12, "day_of_month": 31}
        for n in names:
            i[n] = e.var(SHORT[n], *WIN[n])
        return i

    def body(i):
        kw = dict(i)
        kw[dec_kw] = frac
        return data.TimePoint(**kw)

    def post(i, out):
        g = i.get
        h, mi, se = g("hour_of_day"), g("minute_of_hour", 0), g("second_of_minute", 0)
        inr = [L(h) >= 0, L(mi) >= 0, L(mi) <= 59, L(se) >= 0, L(se) <= 59]
        if frac > 0:
            # h + f, m + f, s + f stay below 24 / 60 / 60 exactly when the integer parts do; 24 + anything > 0 is not a time
            valid = z3.And(inr + [L(h) <= 23])
        else:
            valid = z3.And(inr + [z3.Or(L(h) <= 23, z3.And(L(h) == 24, L(mi) == 0, L(se) == 0))])
        if out[0] == "exc":
            exc = out[1]
            obs = [("refusal is a ValueError subclass", isinstance(exc, ValueError))]
            if isinstance(exc, ValueError):
                obs.append(("every in-range decimal time is accepted", z3.Not(valid)))
            return obs
        return [("no impossible decimal time is admitted", valid)]

    def case_of(v, i):
        kw = {"year": C.year_value(v), "month_of_year": 12, "day_of_month": 31, dec_kw: frac}
        for n in names:
            kw[n] = v[SHORT[n]]
        return {"check": "fields-decimal", "mode": mode, "unit": unit, "kw": kw}

    def zsc(i):
        d = {"decimal field": z3.BoolVal(True)}
        if frac > 0:
            d["24 with a fraction"] = L(i["hour_of_day"]) == 24
        return d

    return sym_run("fields-decimal[%s,%s,%s]" % (mode, unit, frac), make, None, body, post, case_of, scenarios_z3=zsc,
                   bounds={"fraction": frac, "windows": {n: WIN[n] for n in names}}, sample_every=100)


def job_timezone(ctx):
    """TimeZone(hours, minutes) directly"""
    data = ctx.data

    def make(e):
        return {"h": e.var("tzh", -101, 101), "m": e.var("tzm", -62, 62)}

    def body(i):
        return data.TimeZone(hours=i["h"], minutes=i["m"])

    def post(i, out):
        valid = core.zbool(R.valid_tz(M, i["h"], i["m"]))[0]
        if out[0] == "exc":
            return [("refusal is a ValueError subclass", isinstance(out[1], ValueError)), ("valid offsets are accepted", z3.Not(valid))]
        tz = out[1]
        return [("only valid offsets are admitted", valid), ("carries the given parts", z3.And(L(tz._hours) == L(i["h"]), L(tz._minutes) == L(i["m"])))]

    return sym_run("timezone", make, None, body, post, lambda v, i: {"check": "tz", "mode": "gregorian", "h": v["tzh"], "m": v["tzm"]},
                   scenarios=lambda i: {"timezone ctor": True}, bounds={"hours": [-101, 101], "minutes": [-62, 62]})


TEMPLATES = {
    "timepoint": ["2000-01-01T00:00:00Z", "20000101T000000+0530", "2000-366T23:59", "2000-W01-1T12", "+002000-12-31T24:00:00-03:30",
                  "2000-02", "T06+00:00", "---29", "-W-5T10"],
    "duration": ["P1Y2M3DT4H5M6S", "PT5,5H", "P2W", "-P1D", "P0001-02-03T04:05:06", "PT1H"],
    "recurrence": ["R3/2000-01-01T00Z/P1D", "R/P1M/2000-03-31T00Z", "R2/2000-01-01T00Z/2000-01-02T00Z"],
}


def _parser(ctx, kind, cfg):
    P = ctx.parsers
    if kind == "timepoint":
        return P.TimePointParser(**cfg)
    if kind == "duration":
        return P.DurationParser()
    return P.TimeRecurrenceParser(P.TimePointParser(**cfg), P.DurationParser())


def job_garbage(ctx, kind, template, npos, cfg=None, lo=32, hi=126):
    """arbitrary text, bounded: `template` with `npos` consecutive positions
    (every placement) replaced by symbolic ASCII code points (template None: a
    fully symbolic string of length npos).  Outcome must be an object or an
    exception derived from ValueError; termination = exploration finishes."""
    from symx import strs
    from symx.strs import SymStr
    data = ctx.data
    C.set_mode(data, "gregorian")
    install_range_summary(data, "gregorian")
    from .c03 import install_weeks_summary
    install_weeks_summary(data, "gregorian")
    cfg = dict(cfg or {"assumed_time_zone": (0, 0)})
    parser = _parser(ctx, kind, cfg)
    base = list(template) if template is not None else []
    starts = list(range(0, len(base) - npos + 1)) if template is not None else [0]

    def make(e):
        return {"pos": e.var("pos", 0, len(starts) - 1), "ch": [e.var("c%d" % k, lo, hi) for k in range(npos)]}

    def body(i):
        k = core.realise(i["pos"])
        st = starts[k]
        els = (base[:st] + list(i["ch"]) + base[st + npos:]) if template is not None else list(i["ch"])
        s = SymStr.make(els)
        strs.VALIDITY_ONLY_FLOAT[0] = True
        try:
            return parser.parse(s)
        finally:
            strs.VALIDITY_ONLY_FLOAT[0] = False

    def post(i, out):
        if out[0] == "exc":
            return [("any refusal is an error derived from ValueError", isinstance(out[1], ValueError))]
        if out[0] != "ok":
            return [("decided", False)]
        want = {"timepoint": data.TimePoint, "duration": data.Duration, "recurrence": data.TimeRecurrence}[kind]
        return [("otherwise a %s object is returned" % want.__name__, isinstance(out[1], want))]

    def case_of(v, i):
        st = starts[v["pos"]]
        chars = "".join(chr(v["c%d" % k]) for k in range(npos))
        txt = ("".join(base[:st]) + chars + "".join(base[st + npos:])) if template is not None else chars
        return {"check": "garbage", "mode": "gregorian", "kind": kind, "cfg": cfg, "text": txt}

    return sym_run("garbage[%s,%r,%d,%s]" % (kind, template, npos, ",".join(sorted(k[:6] for k in cfg if k != "assumed_time_zone"))),
                   make, None, body, post, case_of,
                   scenarios=lambda i: {"garbage:" + kind: True, "mutated template": template is not None,
                                        "fully symbolic text": template is None},
                   bounds={"parser": kind, "template": template, "symbolic positions": npos, "code points": [lo, hi], "config": cfg},
                   sample_every=200)


# ---------------------------------------------------------------------------
def py_valid_kw(mode, form, kw):
    P = R.PyOps
    g = kw.get
    y = kw["year"]
    if form.startswith("conflict"):
        date_ok = False
    elif form.startswith("cal"):
        date_ok = R.valid_cal(P, mode, y, g("month_of_year", 1), g("day_of_month", 1))
    elif form == "ord":
        date_ok = R.valid_ord(P, mode, y, g("day_of_year"))
    elif form.startswith("week"):
        date_ok = R.valid_week(P, mode, y, g("week_of_year", 1), g("day_of_week", 1))
    else:
        date_ok = True
    return bool(date_ok and R.valid_time(P, g("hour_of_day", 0), g("minute_of_hour", 0), g("second_of_minute", 0)) and
                R.valid_tz(P, g("time_zone_hour", 0), g("time_zone_minute", 0)))


def replay(case, M_):
    data = M_.data
    mode = case["mode"]
    data.CALENDAR.set_mode(mode)
    try:
        if case["check"] == "garbage":
            P = M_.parsers
            cfg = dict(case["cfg"])
            if cfg.get("assumed_time_zone") is not None:
                cfg["assumed_time_zone"] = tuple(cfg["assumed_time_zone"])
            kind = case["kind"]
            parser = (P.TimePointParser(**cfg) if kind == "timepoint" else P.DurationParser() if kind == "duration"
                      else P.TimeRecurrenceParser(P.TimePointParser(**cfg), P.DurationParser()))
            try:
                r = parser.parse(case["text"])
                return False, "parse(%r) = %r" % (case["text"], r)
            except ValueError as exc:
                return False, "parse(%r) refused with %s" % (case["text"], type(exc).__name__)
            except Exception as exc:
                return True, "%s parser on %r raised %s: %s (not derived from ValueError)" % (kind, case["text"], type(exc).__name__, exc)
        if case["check"] == "tz":
            exp = bool(R.valid_tz(R.PyOps, case["h"], case["m"]))
            try:
                data.TimeZone(hours=case["h"], minutes=case["m"])
                got = True
            except ValueError:
                got = False
            except Exception as exc:
                return True, "TimeZone(%s, %s) raised %s (not a ValueError)" % (case["h"], case["m"], type(exc).__name__)
            return got != exp, "TimeZone(%s, %s) accepted=%s, valid=%s" % (case["h"], case["m"], got, exp)
        kw = case["kw"]
        if case["check"] == "fields-truncated":
            exp = bool(trunc_valid(R.PyOps, kw))
            try:
                data.TimePoint(truncated=True, **kw)
                got = True
            except ValueError:
                got = False
            except Exception as exc:
                return True, "TimePoint(truncated=True, %s) raised %s: %s (not a ValueError)" % (kw, type(exc).__name__, exc)
            return got != exp, "TimePoint(truncated=True, %s) accepted=%s but the fields are %s" % (kw, got, "in range" if exp else "impossible")
        if case["check"] == "fields-decimal":
            f = [kw.get(k) or 0 for k in ("hour_of_day_decimal", "minute_of_hour_decimal", "second_of_minute_decimal")]
            h, mi, se = kw["hour_of_day"], kw.get("minute_of_hour", 0), kw.get("second_of_minute", 0)
            exp = 0 <= mi <= 59 and 0 <= se <= 59 and (0 <= h <= 23 or (h == 24 and mi == 0 and se == 0 and not any(f)))
            try:
                data.TimePoint(**kw)
                got = True
            except ValueError:
                got = False
            except Exception as exc:
                return True, "TimePoint(%s) raised %s: %s (not a ValueError)" % (kw, type(exc).__name__, exc)
            return got != exp, "TimePoint(%s) accepted=%s but the time of day is %s" % (kw, got, "valid" if exp else "impossible")
        exp = py_valid_kw(mode, case["form"], kw)
        try:
            p = data.TimePoint(**kw)
            got = True
        except ValueError:
            got = False
        except Exception as exc:
            return True, "TimePoint(%s) raised %s: %s (not a ValueError)" % (kw, type(exc).__name__, exc)
        return got != exp, "TimePoint(%s) accepted=%s but oracle validity is %s [%s mode]" % (kw, got, exp, mode)
    finally:
        data.CALENDAR.set_mode("gregorian")


def jobs(tier):
    th = tier == "thorough"
    J = [("job_timezone", {})]
    for mode in C.MODES4:
        greg = mode == "gregorian"
        J.append(("job_fields", dict(mode=mode, form="cal", tkind="none", zkind="none")))
        J.append(("job_fields", dict(mode=mode, form="ord", tkind="none", zkind="none")))
        J.append(("job_fields", dict(mode=mode, form="week", tkind="none", zkind="none")))
        for form in ("cal-month-only", "cal-day-only", "week-only", "weekday-only", "year-only"):
            J.append(("job_fields", dict(mode=mode, form=form, tkind="none", zkind="none")))
        if greg or th:
            for form in FORMS:
                if form.startswith("conflict"):
                    J.append(("job_fields", dict(mode=mode, form=form, tkind="none", zkind="none", K=(4, 5))))
            J.append(("job_fields", dict(mode=mode, form="ord", tkind="hms", zkind="hm", K=(4, 5), ranges={"DOY": (364, 367)})))
            J.append(("job_fields", dict(mode=mode, form="cal", tkind="hm", zkind="h", K=(4, 5), ranges={"M": (2, 2)})))
            J.append(("job_fields", dict(mode=mode, form="week", tkind="h", zkind="m", K=(4, 5), ranges={"W": (52, 54)})))
            J.append(("job_fields", dict(mode=mode, form="year-only", tkind="hms", zkind="none", K=(4, 5))))
            J.append(("job_fields", dict(mode=mode, form="year-only", tkind="none", zkind="hm", K=(4, 5))))
    for unit in ("hour", "minute", "second"):
        for frac in DEC_FRACTIONS:
            J.append(("job_fields_decimal", dict(mode="gregorian", unit=unit, frac=frac)))
    # text clause, bounded: fully symbolic ASCII strings and mutations of valid expressions
    TR = {"assumed_time_zone": (0, 0), "allow_truncated": True}
    for kind in ("timepoint", "duration", "recurrence"):
        top = {"timepoint": 6, "duration": 7, "recurrence": 7}[kind]
        for n in range(1, top + 1):
            J.append(("job_garbage", dict(kind=kind, template=None, npos=n)))
            if kind == "timepoint":
                J.append(("job_garbage", dict(kind=kind, template=None, npos=n, cfg=TR)))
        for t in TEMPLATES[kind]:
            cfg = TR if (kind == "timepoint" and t[0] in "T-") else None
            for w in ((1, 2, 3, 4) if th else (1, 2, 3)):
                if w > len(t):
                    continue
                if kind == "recurrence" and t.count("Z") == 2 and w > 1 and not th:
                    continue        # start/second-point template: each path subtracts two symbolic points (slow)
                J.append(("job_garbage", dict(kind=kind, template=t, npos=w, cfg=cfg)))
    for names in TRUNC_FORMS:
        J.append(("job_fields_truncated", dict(names=names)))
    return J


INFO = {
    "explanation": "C09 (field clause): the real TimePoint and TimeZone constructors on symbolic integer fields in windows around "
                   "the legal ranges (month -2..15, day -2..34, day-of-year -2..370, week -2..56, weekday -2..10, hour -2..27, "
                   "minute/second -2..62, zone hour -101..101, zone minute -62..62), every year, each date notation, partial "
                   "notations and conflicting notations: accepted <=> oracle-valid in the active calendar mode; a refusal is a "
                   "ValueError subclass; an accepted object carries exactly the given values. Decimal forms: hour / minute / second as a "
                   "symbolic integer in the same windows plus a fraction from {0, 0.25, 0.5, 0.984375} (dyadic, exact): accepted <=> a possible time "
                   "of day (24 only as 24:00:00 with no fraction). Text clause (bounded): the three parsers on strings "
                   "with fully symbolic printable-ASCII characters (strings up to 6-7 characters, and every 1-3 character mutation window of 18 valid "
                   "expressions) either return an object or raise an error derived from ValueError, and the exploration terminates.",
    "bounds": {"quick": {"years": "-1 000 000..999 999 (date-only jobs); 1600..2399 for the jobs that add time and zone fields",
                         "modes": "date notations in all 4 modes; conflicts and time/zone combinations in gregorian"},
               "thorough": {"modes": "everything in all 4 modes", "text": "mutation windows of 1-4 characters"}},
    "outside": ["arbitrary text beyond the stated bound: only fully symbolic printable-ASCII strings of length <= 6 (time points, also with truncation enabled) / <= 7 (durations, recurrences) and 18 valid "
                "expressions with every window of 1-3 consecutive characters replaced by symbolic printable-ASCII characters are decided; "
                "non-ASCII characters (e.g. non-ASCII digits) and longer splices are outside",
                "the numeric value of floats converted from garbage text (only whether float() accepts the text is decided)",
                "non-integer field values; decimal fractions other than the four listed", "truncated points other than the constructor's field clause (16 field combinations, Gregorian calendar)"],
    "assumptions": ["get_days_in_year_range runs as its closed form (C03)"],
}
NEEDS_STRING_VALIDATION = True
REQUIRED_SCENARIOS = {"all": ["decimal field", "24 with a fraction", "garbage:timepoint", "garbage:duration", "garbage:recurrence", "mutated template", "fully symbolic text", "month 0", "month 13", "30 feb", "29 feb", "31st", "day 366", "day 0", "week 53", "weekday 8",
                              "24:00:00", "24:01", "second 60", "zone parts of conflicting sign", "zone -00:30", "year 0",
                              "timezone ctor", "truncated: weekday 8", "truncated: weekday 0"]}
