"""C01 -- adding an exact duration translates the instant exactly.

Real code: TimePoint.__add__/__sub__(Duration), Duration.__add__(TimePoint),
Duration.__init__/__mul__/to_days, TimePoint._tick_over,
_tick_over_day_of_month, iter_months_days, get_days_in_year, get_weeks_in_year.
"""
import z3

import refmodel as R
from refmodel import PyOps as P
from symx import core
from symx.core import lift, conc
from symx.harness import sym_run
from . import common as C
from .c03 import install_range_summary, uninstall_range_summary

PROPERTY = "C01"
L = lift
MULT = {"weeks": 7 * 86400, "days": 86400, "hours": 3600, "minutes": 60, "seconds": 1}
DATE_SLOTS = ("_year", "_month_of_year", "_day_of_month", "_day_of_year",
              "_week_of_year", "_day_of_week")
TIME_SLOTS = ("_hour_of_day", "_minute_of_hour", "_second_of_minute")


def point_fields(p, rep):
    if rep == "cal":
        return (p._year, p._month_of_year, p._day_of_month)
    if rep == "ord":
        return (p._year, p._day_of_year)
    return (p._year, p._week_of_year, p._day_of_week)


def sym_valid_point(mode, p, rep, allow24):
    """validity of a point whose fields are proxies, evaluated on the path"""
    if not C.sym_valid(mode, rep, point_fields(p, rep)):
        return False
    h, mi, s = p._hour_of_day, p._minute_of_hour, p._second_of_minute
    tz = p._time_zone
    if not bool(R.valid_time(P, h, mi, s, allow24=allow24)):
        return False
    return bool(R.valid_tz(P, tz._hours, tz._minutes))


def sym_instant(mode, p, rep):
    tz = p._time_zone
    return (C.sym_daynum(mode, rep, point_fields(p, rep)) * 86400 +
            p._hour_of_day * 3600 + p._minute_of_hour * 60 + p._second_of_minute -
            tz._hours * 3600 - tz._minutes * 60)


def same_point_z3(a, b):
    """z3: two points have identical slots (None matches None only)"""
    cs = []
    for sl in DATE_SLOTS + TIME_SLOTS:
        x, y = getattr(a, sl), getattr(b, sl)
        if x is None or y is None:
            if x is not y:
                return False
            continue
        cs.append(L(x) == L(y))
    for sl in ("_hours", "_minutes"):
        cs.append(L(getattr(a._time_zone, sl)) == L(getattr(b._time_zone, sl)))
    if a._time_zone._unknown != b._time_zone._unknown:
        return False
    return z3.And(cs)


def result_obligations(mode, rep, p, r, shift_seconds, allow24_result=False):
    """the common oracle for `r is p shifted by shift_seconds`"""
    if not isinstance(r, type(p)):
        return [("result is a TimePoint", False)]
    if C.rep_of(r) != rep or not C.same_rep(p, r):
        return [("keeps the date representation", False)]
    if any(getattr(r, s) is None for s in TIME_SLOTS):
        return [("keeps hh:mm:ss form", False)]
    if not C.is_int_typed(*[getattr(r, s) for s in TIME_SLOTS]):
        return [("numeric time fields", False)]
    obs = [("every field inside its legal range", sym_valid_point(mode, r, rep, allow24_result)),
           ("keeps the UTC offset", C.z_same_zone(p, r)),
           ("instant shifted by exactly the duration",
            L(sym_instant(mode, r, rep)) == L(sym_instant(mode, p, rep)) + L(shift_seconds))]
    return obs


def job_add(ctx, mode, rep, unit, nlo, nhi, ranges=None, pins=None, contract=True,
            as_float=False, K=C.KWIDE):
    data = ctx.data
    C.set_mode(data, mode)
    if contract:
        install_range_summary(data, mode)
    else:
        uninstall_range_summary(data)

    def make(e):
        p = C.point_input(e, data, "", rep, K=K)
        n = e.var("n", nlo, nhi)
        return {"p": p, "n": n}

    def body(i):
        p, n = i["p"], i["n"]
        core.ENG.assume(sym_valid_point(mode, p, rep, True))
        amount = core.FLOAT(n) if as_float else n
        d = data.Duration(**{unit: amount})
        dneg = data.Duration(**{unit: -amount})
        r = p + d
        return {"r": r, "radd": d + p, "sub": p - dneg, "negmul": p + (-1 * dneg)}

    def post(i, out):
        if out[0] != "ok":
            return [("no exception for a valid point and exact duration", False)]
        p, n, o = i["p"], i["n"], out[1]
        obs = result_obligations(mode, rep, p, o["r"], n * MULT[unit])
        for k, label in (("radd", "d + p == p + d"), ("sub", "p - (-d) == p + d"),
                         ("negmul", "p + (-1 * -d) == p + d")):
            obs.append((label, same_point_z3(o["r"], o[k])))
        return obs

    def case_of(v, i):
        return {"check": "add", "mode": mode, "rep": rep, "p": C.point_case(v, "", rep),
                "unit": unit, "n": v["n"], "as_float": as_float}

    def scen(i):
        p, n = i["p"], conc(i["n"])
        y = conc(p._year)
        d = {"24:00 input": conc(p._hour_of_day) == 24, "negative amount": n < 0,
             "zero amount": n == 0, "negative year": y < 0,
             "offset with negative minutes and zero hours":
                 conc(p._time_zone._hours) == 0 and conc(p._time_zone._minutes) < 0}
        if rep == "ord":
            doy = conc(p._day_of_year)
            d["forward over a year end (ordinal)"] = unit == "days" and n > 0 and doy + n > 366
            d["backward over a year start (ordinal)"] = unit == "days" and n < 0 and doy + n < 1
        if rep == "cal":
            d["starts on 29 feb"] = conc(p._month_of_year) == 2 and conc(p._day_of_month) == 29
            d["forward over a month end"] = unit == "days" and conc(p._day_of_month) + n > 31
            d["backward over a month start"] = unit == "days" and conc(p._day_of_month) + n < 1
        if rep == "week":
            d["starts in week 53"] = conc(p._week_of_year) == 53
        return d

    return sym_run("add[%s,%s,%s,%d..%d,%s%s]" % (mode, rep, unit, nlo, nhi, ranges, ",float" if as_float else ""),
                   make, None, body, post, case_of, scenarios=scen, ranges=ranges, pins=pins,
                   bounds={"years": "K in %s" % (K,), "amount": [nlo, nhi], "unit": unit,
                           "offsets": "-99:59..+99:59", "time": "00:00:00..23:59:59 and 24:00:00"},
                   sample_every=97)


def _zb(x):
    """z3 Bool of a comparison result that may be a SymBool or a plain bool"""
    if type(x) is core.SymBool:
        return x.z3()
    return z3.BoolVal(bool(x))


def job_add_decimal(ctx, mode, rep, form, frac, unit, nlo, nhi, ranges=None, K=C.KWIDE):
    """the decimal time-precision forms: hh,ii (hour + fraction, no minute / second) and hh:mm,nn (minute +
    fraction, no second).  The fraction is a concrete dyadic number so that the rational proxies are exact;
    the integer parts, the date, the offset and the amount are symbolic."""
    data = ctx.data
    C.set_mode(data, mode)
    install_range_summary(data, mode)
    per = {"hdec": 3600, "mdec": 60}[form]

    def make(e):
        p = C.point_input(e, data, "", rep, K=K, hmax=23)
        if form == "hdec":
            p._hour_of_day = p._hour_of_day + frac
            p._minute_of_hour = p._second_of_minute = None
        else:
            p._minute_of_hour = p._minute_of_hour + frac
            p._second_of_minute = None
        return {"p": p, "n": e.var("n", nlo, nhi)}

    def tsec(q):
        t = q._hour_of_day * 3600
        if q._minute_of_hour is not None:
            t = t + q._minute_of_hour * 60
        if q._second_of_minute is not None:
            t = t + q._second_of_minute
        return t

    def body(i):
        p, n = i["p"], i["n"]
        core.ENG.assume(C.sym_valid(mode, rep, point_fields(p, rep)))
        core.ENG.assume(bool(R.valid_tz(P, p._time_zone._hours, p._time_zone._minutes)))
        d = data.Duration(**{unit: n})
        dneg = data.Duration(**{unit: -n})
        return {"r": p + d, "radd": d + p, "sub": p - dneg}

    def same(a, b):
        cs = []
        for sl in DATE_SLOTS + TIME_SLOTS:
            x, y = getattr(a, sl), getattr(b, sl)
            if x is None or y is None:
                if x is not y:
                    return z3.BoolVal(False)
                continue
            cs.append(_zb(x == y))
        return z3.And(cs)

    def post(i, out):
        if out[0] != "ok":
            return [("no exception for a valid decimal-form point and exact duration", False)]
        p, n, o = i["p"], i["n"], out[1]
        r = o["r"]
        if not isinstance(r, type(p)) or C.rep_of(r) != rep:
            return [("keeps the date representation", False)]
        if (r._minute_of_hour is None) != (p._minute_of_hour is None) or (r._second_of_minute is None) != (p._second_of_minute is None):
            return [("keeps the time-precision form", False)]
        ok_t = [_zb(r._hour_of_day >= 0), _zb(r._hour_of_day < 24)]
        if r._minute_of_hour is not None:
            ok_t += [_zb(r._minute_of_hour >= 0), _zb(r._minute_of_hour < 60)]
        dd = C.m_daynum(mode, rep, C.fields_of(r, rep)) - C.m_daynum(mode, rep, C.fields_of(p, rep))
        delta = tsec(r) - tsec(p) + dd * 86400 - n * MULT[unit]
        return [("date inside its legal range", core.zbool(C.m_valid_date(mode, rep, C.fields_of(r, rep)))[0]),
                ("0 <= h < 24 (and 0 <= m < 60)", z3.And(ok_t)),
                ("keeps the UTC offset", C.z_same_zone(p, r)),
                ("instant shifted by exactly the duration (exact rational arithmetic)", _zb(delta == 0)),
                ("d + p == p + d", same(r, o["radd"])), ("p - (-d) == p + d", same(r, o["sub"]))]

    def case_of(v, i):
        kw = C.point_case(v, "", rep)
        if form == "hdec":
            kw.pop("minute_of_hour"), kw.pop("second_of_minute")
            kw["hour_of_day_decimal"] = frac
        else:
            kw.pop("second_of_minute")
            kw["minute_of_hour_decimal"] = frac
        return {"check": "add-decimal", "mode": mode, "rep": rep, "p": kw, "unit": unit, "n": v["n"]}

    return sym_run("add-decimal[%s,%s,%s+%s,%s,%d..%d,%s]" % (mode, rep, form, frac, unit, nlo, nhi, ranges),
                   make, None, body, post, case_of, ranges=ranges,
                   scenarios_z3=lambda i: {"decimal form, backwards over midnight": L(i["n"]) < 0,
                                           "decimal form, forwards": L(i["n"]) > 0},
                   bounds={"fraction": frac, "form": form, "amount": [nlo, nhi], "unit": unit}, sample_every=97)


def job_add_multi(ctx, mode, rep, ranges=None, lim=None, K=C.KWIDE, pins=None):
    """all five exact units at once, small symbolic amounts"""
    data = ctx.data
    C.set_mode(data, mode)
    install_range_summary(data, mode)
    lim = lim or {"days": 2, "hours": 30, "minutes": 70, "seconds": 70}

    def make(e):
        p = C.point_input(e, data, "", rep, K=K)
        d = {u: e.var("n_" + u, -lim[u], lim[u]) for u in ("days", "hours", "minutes", "seconds")}
        return {"p": p, "d": d}

    def body(i):
        p = i["p"]
        core.ENG.assume(sym_valid_point(mode, p, rep, True))
        d = data.Duration(**i["d"])
        return {"r": p + d, "radd": d + p}

    def post(i, out):
        if out[0] != "ok":
            return [("no exception for a valid point and exact duration", False)]
        p, o = i["p"], out[1]
        shift = sum(i["d"][u] * MULT[u] for u in i["d"])
        obs = result_obligations(mode, rep, p, o["r"], shift)
        obs.append(("d + p == p + d", same_point_z3(o["r"], o["radd"])))
        return obs

    def case_of(v, i):
        return {"check": "add_multi", "mode": mode, "rep": rep, "p": C.point_case(v, "", rep),
                "d": {u: v["n_" + u] for u in ("days", "hours", "minutes", "seconds")}}

    return sym_run("add_multi[%s,%s,%s,%s]" % (mode, rep, ranges, pins), make, None, body, post, case_of,
                   ranges=ranges, pins=pins, bounds={"years": "K in %s" % (K,), "amounts": lim}, sample_every=97)


# ---------------------------------------------------------------------------
def replay(case, M):
    data = M.data
    mode = case["mode"]
    data.CALENDAR.set_mode(mode)
    try:
        return _replay(case, data, mode)
    finally:
        data.CALENDAR.set_mode("gregorian")


def check_shift(data, mode, p, r, shift, what):
    """concrete oracle; returns (violated, detail)"""
    if not isinstance(r, data.TimePoint):
        return True, "%s is not a TimePoint: %r" % (what, r)
    desc = "%s = %s" % (what, C.describe_point(r))
    if C.rep_of(r) != C.rep_of(p):
        return True, desc + " changes the date representation"
    if not C.py_valid_point(mode, r, allow24=False):
        return True, desc + " has a field outside its legal range"
    if (r._time_zone._hours, r._time_zone._minutes) != (p._time_zone._hours, p._time_zone._minutes):
        return True, desc + " changes the UTC offset"
    got, exp = C.py_instant(mode, r), C.py_instant(mode, p) + shift
    if got != exp:
        return True, desc + " is off by %s s from the expected instant" % (got - exp)
    return False, desc


def _replay_decimal(case, data, mode):
    from fractions import Fraction
    p = C.build_point(data, case["p"])
    n, unit = case["n"], case["unit"]
    d = data.Duration(**{unit: n})
    what = "%s + %s" % (C.describe_point(p), d)
    try:
        rs = {"p + d": p + d, "d + p": d + p, "p - (-d)": p - data.Duration(**{unit: -n})}
    except Exception as exc:
        return True, "%s raised %s: %s" % (what, type(exc).__name__, exc)
    for k, r in rs.items():
        desc = "%s: %s = %s" % (what, k, C.describe_point(r))
        if C.rep_of(r) != C.rep_of(p):
            return True, desc + " changes the date representation"
        if (r._minute_of_hour is None) != (p._minute_of_hour is None) or (r._second_of_minute is None) != (p._second_of_minute is None):
            return True, desc + " changes the time-precision form"
        if not C.py_valid_date(mode, r) or not (0 <= r._hour_of_day < 24) or (
                r._minute_of_hour is not None and not (0 <= r._minute_of_hour < 60)):
            return True, desc + " has a field outside its legal range"
        if (r._time_zone._hours, r._time_zone._minutes) != (p._time_zone._hours, p._time_zone._minutes):
            return True, desc + " changes the UTC offset"
        off = C.py_instant(mode, r) - (C.py_instant(mode, p) + n * MULT[unit])
        if abs(off) > Fraction(1, 1000000):
            return True, desc + " is off by %s s from the expected instant (tolerance 1 microsecond)" % float(off)
    return False, what + " = " + C.describe_point(rs["p + d"])


def _replay(case, data, mode):
    if case["check"] == "add-decimal":
        return _replay_decimal(case, data, mode)
    p = C.build_point(data, case["p"])
    if not C.py_valid_point(mode, p, allow24=True):
        return False, "input point invalid (precondition)"
    if case["check"] == "add":
        n = float(case["n"]) if case.get("as_float") else case["n"]
        d = data.Duration(**{case["unit"]: n})
        dneg = data.Duration(**{case["unit"]: -n})
        shift = case["n"] * MULT[case["unit"]]
    else:
        d = data.Duration(**case["d"])
        dneg = -1 * d
        shift = sum(case["d"][u] * MULT[u] for u in case["d"])
    what = "%s + %s" % (C.describe_point(p), d)
    try:
        r = p + d
        others = {"d + p": d + p, "p - (-d)": p - dneg, "p + (-1 * -d)": p + (-1 * dneg)}
    except Exception as exc:
        return True, "%s raised %s: %s" % (what, type(exc).__name__, exc)
    bad, detail = check_shift(data, mode, p, r, shift, what)
    if bad:
        return True, detail
    for k, o in others.items():
        if not (C.rep_of(o) == C.rep_of(r) and
                all(getattr(o, s) == getattr(r, s) for s in DATE_SLOTS + TIME_SLOTS) and
                (o._time_zone._hours, o._time_zone._minutes) == (r._time_zone._hours, r._time_zone._minutes)):
            return True, "%s: %s gives %s but p + d gives %s" % (what, k, C.describe_point(o), C.describe_point(r))
    return False, detail


# ---------------------------------------------------------------------------
def jobs(tier):
    J = []
    th = tier == "thorough"
    for mode in C.MODES4:
        greg = mode == "gregorian"
        # ordinal dates: one path per year crossed
        J.append(("job_add", dict(mode=mode, rep="ord", unit="days", nlo=-800, nhi=800)))
        J.append(("job_add", dict(mode=mode, rep="ord", unit="weeks", nlo=-60, nhi=60)))
        for unit, lim in (("hours", 100), ("minutes", 3000), ("seconds", 90000)):
            J.append(("job_add", dict(mode=mode, rep="ord", unit=unit, nlo=-lim, nhi=lim)))
        J.append(("job_add", dict(mode=mode, rep="ord", unit="seconds", nlo=-90000, nhi=90000, as_float=True)))
        # calendar dates: one path per day walked -> split by month
        dlim = 120 if th else 40
        if greg or mode == "360day" or th:
            for m in range(1, 13):
                J.append(("job_add", dict(mode=mode, rep="cal", unit="days", nlo=-dlim, nhi=dlim,
                                          ranges={"M": (m, m)})))
        else:
            for m in (2, 12):
                J.append(("job_add", dict(mode=mode, rep="cal", unit="days", nlo=-dlim, nhi=dlim,
                                          ranges={"M": (m, m)})))
        # carries longer than a year (the day walk crosses a whole year, a leap day and the year number)
        for lo, hi in ((355, 372), (-372, -355)) + (((725, 735),) if mode in ("gregorian", "366day") else ()):
            for rg in ({"M": (2, 3), "D": (1, 3)}, {"M": (12, 12), "D": (29, 31)}):
                J.append(("job_add", dict(mode=mode, rep="cal", unit="days", nlo=lo, nhi=hi, ranges=rg)))
        J.append(("job_add", dict(mode=mode, rep="cal", unit="weeks", nlo=51, nhi=53, ranges={"M": (2, 3), "D": (1, 3)})))
        for unit, lim in (("hours", 60), ("seconds", 90000)):
            for m in ((1, 2), (3, 7), (8, 12)):
                J.append(("job_add", dict(mode=mode, rep="cal", unit=unit, nlo=-lim, nhi=lim,
                                          ranges={"M": m})))
        # week dates
        if greg or th:
            for w in ((1, 2), (3, 50), (51, 53)):
                J.append(("job_add", dict(mode=mode, rep="week", unit="days", nlo=-20, nhi=20, ranges={"W": w})))
                J.append(("job_add", dict(mode=mode, rep="week", unit="weeks", nlo=-60, nhi=60, ranges={"W": w})))
                J.append(("job_add", dict(mode=mode, rep="week", unit="hours", nlo=-100, nhi=100, ranges={"W": w})))
        else:
            J.append(("job_add", dict(mode=mode, rep="week", unit="days", nlo=-20, nhi=20, ranges={"W": (50, 53)})))
        # decimal time-precision forms (hh,ii and hh:mm,nn) with dyadic fractions
        if th:
            dec = [(rep, rg, form, frac, unit)
                   for rep, rgs in (("ord", [None]), ("cal", [{"M": (1, 2)}, {"M": (3, 12)}]), ("week", [{"W": (1, 2)}, {"W": (3, 53)}]))
                   for rg in rgs
                   for form, frac in (("hdec", 0.25), ("hdec", 0.75), ("mdec", 0.5), ("hdec", 0.5), ("mdec", 0.25), ("mdec", 0.875))
                   for unit in ("hours", "minutes", "seconds", "days")]
        else:
            dec = [("ord", None, form, frac, unit) for form, frac in (("hdec", 0.25), ("hdec", 0.75), ("mdec", 0.5))
                   for unit in ("hours", "minutes", "seconds", "days")]
            if greg:
                dec += [(rep, rg, form, frac, unit)
                        for rep, rg in (("cal", {"M": (1, 2)}), ("cal", {"M": (12, 12)}), ("week", {"W": (1, 1)}), ("week", {"W": (52, 53)}))
                        for form, frac in (("hdec", 0.25), ("mdec", 0.5)) for unit in ("hours", "minutes")]
        for rep, rg, form, frac, unit in dec:
            lim = {"hours": 60, "minutes": 3000, "seconds": 90000, "days": 20 if rep == "week" else 40}[unit]
            J.append(("job_add_decimal", dict(mode=mode, rep=rep, form=form, frac=frac, unit=unit, nlo=-lim, nhi=lim, ranges=rg)))
        if greg or th:
            lim = {"days": 1, "hours": 25, "minutes": 61, "seconds": 61}
            J.append(("job_add_multi", dict(mode=mode, rep="ord", lim=lim)))
            for m in (range(1, 13) if th else (1, 2, 3, 12)):
                J.append(("job_add_multi", dict(mode=mode, rep="cal", lim=lim, ranges={"M": (m, m)})))
            if th and greg:
                # mod-7 atoms make z3 slow here: pin the year residue (year type)
                for res in (0, 3, 4, 99, 100, 104, 203, 300, 399):
                    for w in ((1, 1), (2, 51), (52, 53)):
                        J.append(("job_add_multi", dict(mode=mode, rep="week", lim=lim, ranges={"W": w},
                                                        pins=C.residue_pins(res))))
    return J


def job_weight(fn, kw):
    if fn == "job_add_multi":
        return 60
    if kw.get("rep") == "cal" and kw.get("unit") == "days":
        return 30
    if kw.get("rep") == "week":
        return 25
    return 5


INFO = {
    "explanation": "C01: p + d for a symbolic valid TimePoint p (3 representations, any offset, any whole-second time "
                   "incl. 24:00, any year) and a Duration with a symbolic amount of one exact unit (and all five at once "
                   "with small amounts); per path: instant(r) = instant(p) + length(d), r valid with 0<=h<24, same "
                   "representation and offset; d + p, p - (-d) and p + (-1 * -d) slot-identical to p + d.",
    "bounds": {
        "quick": {"years": "-1 000 000 .. 999 999", "offsets": "-99:59..+99:59", "time": "whole seconds incl. 24:00:00",
                  "ordinal": "days +-800, weeks +-60, hours +-100, minutes +-3000, seconds +-90000 (int and float typed)",
                  "calendar": "days 355..372, -372..-355 (gregorian, 366day: also 725..735) and weeks 51..53 from 1-3 Feb/Mar and 29-31 Dec in every mode; days +-40 from every start date (all months: gregorian, 360day; Feb and Dec: 365day, 366day), hours +-60, seconds +-90000",
                  "week": "gregorian: days +-20, weeks +-60, hours +-100 from every week; other modes: days +-20 from weeks 50-53",
                  "decimal forms": "hh,ii with fraction .25/.75 and hh:mm,nn with fraction .5 (thorough: also .5/.25/.875), every date and offset, "
                                   "hours +-60, minutes +-3000, seconds +-90000, days +-40 on ordinal dates in all modes; calendar dates of Jan, Feb, Dec and week dates "
                                   "of weeks 1, 52, 53 with hours / minutes in gregorian (thorough: every date, representation and unit in all modes)",
                  "multi-unit": "gregorian: days +-1, hours +-25, minutes +-61, seconds +-61 together (ordinal: every day; calendar: Jan, Feb, Mar, Dec; week dates: thorough tier only)"},
        "thorough": {"calendar": "days +-120 from every start date in all 4 modes", "week": "all modes as gregorian; multi-unit on week dates with 9 year residues",
                     "decimal forms": "six fraction/form combinations on every date, representation and unit, all modes"}},
    "outside": ["fractional seconds; decimal hour/minute forms with fractions other than the dyadic ones listed (the decimal forms are "
                "decided in exact rational arithmetic - SymRatio proxies - which is what the library's float arithmetic equals up to "
                "rounding; 'within a microsecond' is then checked by the concrete replay with that tolerance)",
                "durations beyond the stated carry bounds", "truncated points"],
    "assumptions": ["the TimePoint state is built directly (slots) and constrained by the oracle's validity predicate; the constructor is C09's subject",
                    "get_days_in_year_range runs as its closed form, discharged by C03's L0 obligation (re-checked there on every run)"],
}
REQUIRED_SCENARIOS = {"all": ["decimal form, backwards over midnight", "decimal form, forwards", "24:00 input", "negative amount", "zero amount", "negative year",
                              "forward over a year end (ordinal)", "backward over a year start (ordinal)",
                              "starts on 29 feb", "forward over a month end", "backward over a month start",
                              "starts in week 53"]}
