"""C02 -- comparison and hashing of time points follow the timeline.

Real code: TimePoint._cmp and the six operators, get_props, to_time_zone (and
the __add__/_tick_over chain under it), get_calendar_date/get_ordinal_date,
get_second_of_day, __hash__ (to_utc, get_hour_minute_second).
"""
import operator

import z3

import refmodel as R
from refmodel import PyOps as P
from symx import core
from symx.core import lift, conc
from symx.harness import sym_run
from . import common as C
from .c01 import sym_valid_point, sym_instant
from .c03 import install_range_summary

PROPERTY = "C02"
L = lift
OPS = {"eq": operator.eq, "ne": operator.ne, "lt": operator.lt, "le": operator.le,
       "gt": operator.gt, "ge": operator.ge}


def _decimalise(p, form, frac):
    """turn the hh:mm:ss state into the hh,ii / hh:mm,nn precision form (integer parts stay symbolic)"""
    if form == "hdec":
        p._hour_of_day = p._hour_of_day + frac
        p._minute_of_hour = p._second_of_minute = None
    else:
        p._minute_of_hour = p._minute_of_hour + frac
        p._second_of_minute = None


def _tsec(p):
    t = p._hour_of_day * 3600
    if p._minute_of_hour is not None:
        t = t + p._minute_of_hour * 60
    if p._second_of_minute is not None:
        t = t + p._second_of_minute
    return t


def _instant_any(mode, p, rep):
    """instant of a point in any precision form (the listed dyadic fractions make it a whole number of seconds)"""
    tz = p._time_zone
    return C.m_daynum(mode, rep, C.fields_of(p, rep)) * 86400 + _tsec(p) - tz._hours * 3600 - tz._minutes * 60


def job_cmp(ctx, mode, ra, rb, op, ranges=None, tzh=(-99, 99), near=None, K=C.KWIDE, pins=None, dec=None):
    """a op b for two symbolic points.  near=(lo, hi): b's year = a's year + dy
    with dy in that range (so that the two points can actually be close)."""
    data = ctx.data
    C.set_mode(data, mode)
    install_range_summary(data, mode)
    fn = OPS[op]

    def make(e):
        a = C.point_input(e, data, "a", ra, tzh=tzh, K=K, hmax=23 if (dec and "a" in dec) else 24)
        b = C.point_input(e, data, "b", rb, tzh=tzh, K=K, hmax=23 if (dec and "b" in dec) else 24)
        if near is not None:
            b._year = a._year + e.var("dy", near[0], near[1])
        i = {"a": a, "b": b}
        if dec:
            # validity is stated on the hh:mm:ss state the decimal form is derived from
            i["pre"] = z3.And(C.m_valid_point(mode, a, ra, True), C.m_valid_point(mode, b, rb, True))
            for tag, (form, frac) in dec.items():
                _decimalise(i[tag], form, frac)
        return i

    def pre(i):
        if dec:
            return i["pre"]
        return z3.And(C.m_valid_point(mode, i["a"], ra, True), C.m_valid_point(mode, i["b"], rb, True))

    def body(i):
        return fn(i["a"], i["b"])

    def post(i, out):
        if out[0] != "ok":
            return [("no exception", False)]
        res = out[1]
        if type(res) is core.SymBool:       # list comparison hands back the element comparison
            res = bool(res)
        if not isinstance(res, bool):
            return [("returns a bool", False)]
        if dec:
            ia, ib = L(_instant_any(mode, i["a"], ra)), L(_instant_any(mode, i["b"], rb))
        else:
            ia, ib = L(C.m_instant(mode, i["a"], ra)), L(C.m_instant(mode, i["b"], rb))
        exp = {"eq": ia == ib, "ne": ia != ib, "lt": ia < ib, "le": ia <= ib, "gt": ia > ib, "ge": ia >= ib}[op]
        return [("a %s b is the order of the instants" % op, z3.BoolVal(res) == exp)]

    def case_of(v, i):
        pb = C.point_case(v, "b", rb)
        if near is not None:
            pb["year"] = C.year_value(v, "a") + v["dy"]
        pa = C.point_case(v, "a", ra)
        for tag, kw in (("a", pa), ("b", pb)):
            if dec and tag in dec:
                form, frac = dec[tag]
                kw.pop("second_of_minute")
                if form == "hdec":
                    kw.pop("minute_of_hour")
                    kw["hour_of_day_decimal"] = frac
                else:
                    kw["minute_of_hour_decimal"] = frac
        return {"check": "cmp", "mode": mode, "op": op, "a": pa, "b": pb}

    def zsc(i):
        a, b = i["a"], i["b"]
        if dec:
            return {"decimal-form operand": z3.BoolVal(True), "op:" + op: z3.BoolVal(True)}
        return {"24:00 operand": z3.Or(L(a._hour_of_day) == 24, L(b._hour_of_day) == 24),
                "op:" + op: z3.BoolVal(True),
                "different offsets": L(a._time_zone._hours) != L(b._time_zone._hours)}

    def scen(i):
        a, b = i["a"], i["b"]
        return {"negative year": conc(a._year) < 0, "reps:%s/%s" % (ra, rb): True}

    return sym_run("cmp[%s,%s,%s/%s,%s,near=%s%s]" % (mode, op, ra, rb, ranges, near, ",dec=%s" % (dec,) if dec else ""), make, pre, body, post, case_of,
                   scenarios=scen, scenarios_z3=zsc, ranges=ranges, pins=pins or getattr(ctx, "pins", None),
                   bounds={"years": "K in %s" % (K,), "offset hours": list(tzh), "year distance": near or "any",
                           "pins": pins or getattr(ctx, "pins", None)},
                   sample_every=500)


def job_hash(ctx, mode, rep, ranges=None, tzh=(-99, 99), pins=None):
    """hash(p) is a function of the instant: the key the real __hash__ builds
    is the (unique) valid UTC calendar date-time of p's instant.  Equal
    instants therefore have equal keys, hence equal hashes."""
    data = ctx.data
    C.set_mode(data, mode)
    install_range_summary(data, mode)

    def make(e):
        return {"p": C.point_input(e, data, "", rep, tzh=tzh)}

    def pre(i):
        return C.m_valid_point(mode, i["p"], rep, True)

    def body(i):
        return i["p"].__hash__()

    def post(i, out):
        if out[0] != "ok":
            return [("no exception", False)]
        key = out[1]
        if not isinstance(key, core.HashKey) or key.items[0] != "tuple" or len(key.items[1]) != 6:
            return [("hash key is the 6-tuple (Y, M, D, h, m, s)", False)]
        vals = []
        for k in key.items[1]:
            if k.items[0] != "num":
                return [("numeric hash key", False)]
            vals.append(k.items[1])
        y, mo, d, h, mi, s = vals
        valid = core.zbool(C.M.And(C.m_valid_date(mode, "cal", (y, mo, d)),
                                   R.valid_time(C.M, h, mi, s, allow24=False)))[0]
        inst = C.m_daynum(mode, "cal", (y, mo, d)) * 86400 + h * 3600 + mi * 60 + s
        return [("key is a valid UTC calendar date-time", valid),
                ("key denotes p's instant", L(inst) == L(C.m_instant(mode, i["p"], rep)))]

    def case_of(v, i):
        return {"check": "hash", "mode": mode, "p": C.point_case(v, "", rep)}

    return sym_run("hash[%s,%s,%s,%s]" % (mode, rep, ranges, pins), make, pre, body, post, case_of, ranges=ranges, pins=pins,
                   scenarios_z3=lambda i: {"hash of 24:00": L(i["p"]._hour_of_day) == 24},
                   bounds={"years": "K in %s" % (C.KWIDE,), "offset hours": list(tzh)}, sample_every=500)


# ---------------------------------------------------------------------------
def replay(case, M):
    data = M.data
    mode = case["mode"]
    data.CALENDAR.set_mode(mode)
    try:
        if case["check"] == "hash":
            p = C.build_point(data, case["p"])
            # witness of unequal hashes for equal instants: the same instant in UTC calendar form
            n = C.py_instant(mode, p)
            day, sec = divmod(n, 86400)
            y, mo, d = R.py_cal_of_daynum(mode, day)
            q = C.build_point(data, dict(year=y, month_of_year=mo, day_of_month=d, hour_of_day=sec // 3600,
                                         minute_of_hour=sec % 3600 // 60, second_of_minute=sec % 60,
                                         time_zone_hour=0, time_zone_minute=0))
            bad = hash(p) != hash(q)
            return bad, "hash(%s) = %s but hash(%s) = %s (same instant)" % (
                C.describe_point(p), hash(p), C.describe_point(q), hash(q))
        a, b = C.build_point(data, case["a"]), C.build_point(data, case["b"])
        ia, ib = C.py_instant(mode, a), C.py_instant(mode, b)
        op = case["op"]
        got = OPS[op](a, b)
        exp = OPS[op](ia, ib)
        if got != exp:
            return True, "(%s) %s (%s) = %s but the instants are %s apart" % (
                C.describe_point(a), op, C.describe_point(b), got, ia - ib)
        # the rest of the statement, concretely, on this pair
        trich = [a < b, a == b, a > b]
        if sum(bool(x) for x in trich) != 1:
            return True, "(%s), (%s): not exactly one of <, ==, > holds: %s" % (
                C.describe_point(a), C.describe_point(b), trich)
        if (a == b) != (b == a) or (a != b) == (a == b):
            return True, "== / != not symmetric or complementary on (%s), (%s)" % (
                C.describe_point(a), C.describe_point(b))
        if (a == b) and hash(a) != hash(b):
            return True, "(%s) == (%s) but their hashes differ" % (C.describe_point(a), C.describe_point(b))
        return False, "(%s) %s (%s) = %s" % (C.describe_point(a), op, C.describe_point(b), got)
    finally:
        data.CALENDAR.set_mode("gregorian")


def jobs(tier):
    th = tier == "thorough"
    J = []
    near = (-1, 1)
    z = (-30, 30) if th else (-14, 14)
    allops = list(OPS)
    for mode in (C.MODES4 if th else ["gregorian", "360day"]):
        greg = mode == "gregorian"
        thops = allops if greg else ["eq", "lt", "ge"]
        for op in (thops if th else (allops if greg else ["eq", "lt"])):
            J.append(("job_cmp", dict(mode=mode, ra="ord", rb="ord", op=op, near=near, tzh=z)))
        plan = [("cal", "cal", thops if th else (["eq", "lt"] if greg else ["lt"]))]
        if greg or th:
            plan += [("cal", "ord", thops if th else ["lt"]), ("ord", "cal", thops if th else ["eq"])]
        for ra, rb, ops in plan:
            for op in ops:
                for rg in split_ranges(ra, rb, th and greg and ra == rb, mode):
                    J.append(("job_cmp", dict(mode=mode, ra=ra, rb=rb, op=op, near=near, tzh=z, ranges=rg)))
        # decimal precision forms (hh,ii / hh:mm,nn with dyadic fractions) against hh:mm:ss and against each other
        if greg or th:
            dl = last_days(mode)
            for op in (allops if th else ["eq", "lt", "ge"]):
                for dec in ({"a": ("hdec", 0.5)}, {"b": ("hdec", 0.25)}, {"a": ("mdec", 0.5), "b": ("hdec", 0.75)}):
                    for rg in ({"DOYa": (1, 2), "DOYb": dl}, {"DOYa": dl, "DOYb": (1, 2)}, {"DOYa": (59, 60), "DOYb": (59, 60)}):
                        J.append(("job_cmp", dict(mode=mode, ra="ord", rb="ord", op=op, near=near, tzh=z, ranges=rg, dec=dec)))
        # far apart: 400-year cycle indices pinned to distant values, residues symbolic
        for ka, kb in ((4, 5), (5, -2500), (-1, 0)):
            J.append(("job_cmp", dict(mode=mode, ra="ord", rb="ord", op="lt", tzh=z, near=None,
                                      ranges={"DOYa": (1, 2), "DOYb": last_days(mode)}, pins={"Ka": ka, "Kb": kb})))
        if greg or th:
            # week dates: the first operand's year residue mod 400 is pinned (K symbolic)
            wp = [("week", "ord"), ("ord", "week"), ("week", "cal"), ("cal", "week"), ("week", "week")]
            for ra, rb in wp:
                for res in ((0, 104, 399) if (th and greg) else ((104, 399) if ra == rb else (104,))):
                    for op in ((["eq", "lt", "ge"] if greg else ["lt"]) if th else (["eq", "lt"] if ra == rb else ["lt"])):
                        for rg in split_ranges(ra, rb, False, mode):
                            J.append(("job_cmp_res", dict(mode=mode, ra=ra, rb=rb, op=op, res=res, ranges=rg,
                                                          tzh=(-14, 14))))
    doys = [(a, min(a + 30, 366)) for a in range(1, 367, 31)]
    for mode in C.MODES4:
        full = th or mode == "gregorian"
        for r in (doys if full else (doys[0], doys[-1])):
            J.append(("job_hash", dict(mode=mode, rep="ord", ranges={"DOY": r})))
        for m in (range(1, 13) if full else (2, 12)):
            J.append(("job_hash", dict(mode=mode, rep="cal", ranges={"M": (m, m)})))
    for res in ((0, 99, 104, 203, 300, 399) if th else (104, 399)):
        for w in ((1, 1), (2, 51), (52, 53)) if th else ((1, 1), (52, 53)):
            J.append(("job_hash", dict(mode="gregorian", rep="week", ranges={"W": w}, tzh=(-14, 14),
                                       pins=C.residue_pins(res))))
    return J


def last_days(mode):
    n = {"gregorian": 366, "360day": 360, "365day": 365, "366day": 366}[R.canon(mode)]
    return (n - 1, n)


def split_ranges(ra, rb, th, mode="gregorian"):
    """keep each job small: operand dates are restricted to windows around the
    year boundary, the end of February and the ISO week-year boundary; quick
    pairs window i of a with window (2 - i) of b, thorough takes all 9 pairs"""
    def win(rep, tag):
        if rep == "ord":
            return [{"DOY" + tag: r} for r in ((1, 2), (59, 61), last_days(mode))]
        if rep == "cal":
            return [{"M" + tag: (1, 1), "D" + tag: (1, 2)}, {"M" + tag: (2, 3), "D" + tag: (28, 31)},
                    {"M" + tag: (12, 12), "D" + tag: (30, 31)}]
        return [{"W" + tag: (1, 1), "WD" + tag: (1, 2)}, {"W" + tag: (9, 9), "WD" + tag: (3, 4)},
                {"W" + tag: (52, 53), "WD" + tag: (6, 7)}]
    out = []
    wa, wb = win(ra, "a"), win(rb, "b")
    for i in range(3):
        for j in range(3):
            if th or i + j == 2:
                d = dict(wa[i])
                d.update(wb[j])
                out.append(d)
    return out


def job_weight(fn, kw):
    if fn == "job_hash":
        return 5
    if kw.get("ra") == kw.get("rb") == "ord":
        return 60
    w = 10
    for r in (kw.get("ra"), kw.get("rb")):
        w += {"week": 40, "cal": 25, "ord": 5, None: 0}[r]
    return w


INFO = {
    "explanation": "C02: each of the six comparison operators (one per run) on two symbolic valid TimePoints in any mix of "
                   "representations and offsets, incl. 24:00 operands, equals the same comparison of the oracle instants (so "
                   "trichotomy, symmetry/complementarity of ==/!=, <=/>= as unions and transitivity follow from the integer "
                   "order); the key built by the real __hash__ is shown to be the unique valid UTC calendar date-time of the "
                   "instant, so equal instants have equal hashes.",
    "bounds": {"quick": {"years": "first operand -1 000 000..999 999, second within +-1 year of it (plus one far-apart job)",
                         "offsets": "-14:59..+14:59 on both operands (hash: -99:59..+99:59)",
                         "dates": "ordinal/ordinal: every pair of dates; other pairs: operands near year boundaries, end of February and the "
                                  "ISO week-year boundary (windows: days 1-2, 59-61, 365-366; 1-2 Jan, 28 Feb-3 Mar, 30-31 Dec; "
                                  "W01-1/2, W09-3/4, W52/53-6/7); hash: every gregorian ordinal/calendar date, other modes Jan/Dec (ordinal) "
                                  "and Feb/Dec (calendar), week dates in weeks 1, 52, 53 for year residues 104 and 399",
                         "operators": "all six for ordinal/ordinal (every date); == and < for calendar/calendar and week/week, < or == for the mixed pairs; week dates with the first operand's year residue mod 400 pinned to 104 / 399 (cycle index symbolic)"},
               "thorough": {"operators": "all six in gregorian, eq/lt/ge in the other three modes", "offsets": "-30:59..+30:59",
                            "dates": "all 9 window pairs for same-representation pairs in gregorian; week dates with year residues 0, 104, 399"}},
    "outside": ["truncated points (excluded by the property)", "fractional seconds; decimal hour/minute forms other than the dyadic fractions .25/.5/.75 on ordinal dates in the stated windows (decided exactly: with these fractions every instant is a whole number of seconds)",
                "operand dates outside the stated windows in the comparison jobs (the hash jobs cover every date)"],
    "assumptions": ["hash(): the shim returns the tuple the real __hash__ builds; equal tuples of equal numbers have equal CPython hashes"],
}
REQUIRED_SCENARIOS = {"all": ["decimal-form operand", "24:00 operand", "op:eq", "op:lt", "different offsets", "hash of 24:00", "negative year"]}


def job_cmp_res(ctx, mode, ra, rb, op, res, ranges=None, tzh=(-14, 14), near=(-1, 1)):
    """as job_cmp with the first operand's year residue mod 400 pinned (the
    400-year cycle index K stays symbolic): week arithmetic folds."""
    ctx.pins = C.residue_pins(res, "a")
    try:
        return job_cmp(ctx, mode, ra, rb, op, ranges=ranges, tzh=tzh, near=near)
    finally:
        ctx.pins = None
