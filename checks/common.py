"""Shared harness helpers: symbolic TimePoint/Duration construction, the
oracle lifted to z3 over the proxies' fields, replay-case (de)serialisation."""
import z3

import refmodel as R
from refmodel import Z3Ops as Z, PyOps as P
from symx import core
from symx.core import lift, conc, SymInt

MODES4 = ["gregorian", "360day", "365day", "366day"]
REPS = ["cal", "ord", "week"]
KWIDE = (-2500, 2499)        # years -1 000 000 .. 999 999


# ---------------------------------------------------------------------------
# inputs
# ---------------------------------------------------------------------------
def year_input(eng, tag="", K=KWIDE, E=None):
    """y = 400K + 100c + 4q + s   (bijection with the integers in range).
    Jobs may pin any of K/c/q/s through eng.pins.  With E=(lo, hi) the year is
    10000E + 400K + 100c + 4q + s (K in 0..24): the decimal split the dumper's
    expanded-year properties make then stays linear."""
    k = eng.var("K" + tag, K[0], K[1])
    c = eng.var("c" + tag, 0, 3)
    q = eng.var("q" + tag, 0, 24)
    s = eng.var("s" + tag, 0, 3)
    y = k * 400 + c * 100 + q * 4 + s
    if E is not None:
        y = eng.var("E" + tag, E[0], E[1]) * 10000 + y
    return y


def year_value(vals, tag=""):
    return (10000 * vals.get("E" + tag, 0) + 400 * vals["K" + tag] + 100 * vals["c" + tag] +
            4 * vals["q" + tag] + vals["s" + tag])


def residue_pins(res, tag=""):
    c, r = divmod(res, 100)
    q, s = divmod(r, 4)
    return {"c" + tag: c, "q" + tag: q, "s" + tag: s}


def cs_pins(c, s, tag=""):
    return {"c" + tag: c, "s" + tag: s}


def raw_timezone(data, h, m):
    tz = data.TimeZone(_is_empty_instance=True)
    tz._years = 0
    tz._months = 0
    tz._weeks = None
    tz._days = 0
    tz._seconds = 0
    tz._hours = h
    tz._minutes = m
    tz._unknown = False
    return tz


def raw_point(data, year, rep, f1, f2, h, mi, s, tzh, tzm, ned=0):
    """Build the state a valid TimePoint has, without the constructor (the
    constructor is C09's subject; its bounds check computes weeks-in-year for
    every representation, which multiplies paths for nothing)."""
    p = data.TimePoint(is_empty_instance=True)
    for a in p.__slots__:
        setattr(p, a, None)
    p._num_expanded_year_digits = ned
    p._truncated = False
    p._year = year
    if rep == "cal":
        p._month_of_year, p._day_of_month = f1, f2
    elif rep == "ord":
        p._day_of_year = f1
    else:
        p._week_of_year, p._day_of_week = f1, f2
    p._hour_of_day, p._minute_of_hour, p._second_of_minute = h, mi, s
    p._time_zone = raw_timezone(data, tzh, tzm)
    return p


def point_input(eng, data, tag, rep, K=KWIDE, tz=True, tod=True, tzh=(-99, 99),
                tzm=(-59, 59), hmax=24, E=None):
    y = year_input(eng, tag, K, E)
    if rep == "cal":
        f1 = eng.var("M" + tag, 1, 12)
        f2 = eng.var("D" + tag, 1, 31)
    elif rep == "ord":
        f1 = eng.var("DOY" + tag, 1, 366)
        f2 = None
    else:
        f1 = eng.var("W" + tag, 1, 53)
        f2 = eng.var("WD" + tag, 1, 7)
    if tod:
        h = eng.var("h" + tag, 0, hmax)
        mi = eng.var("mi" + tag, 0, 59)
        s = eng.var("se" + tag, 0, 59)
    else:
        h = mi = s = 0
    if tz:
        zh = eng.var("tzh" + tag, tzh[0], tzh[1])
        zm = eng.var("tzm" + tag, tzm[0], tzm[1])
    else:
        zh = zm = 0
    return raw_point(data, y, rep, f1, f2, h, mi, s, zh, zm)


POINT_VARS = {"cal": ["M", "D"], "ord": ["DOY"], "week": ["W", "WD"]}


def point_case(vals, tag, rep):
    """concrete constructor kwargs from a model"""
    g = lambda n, d=0: vals.get(n + tag, d)
    kw = {"year": year_value(vals, tag)}
    if rep == "cal":
        kw["month_of_year"], kw["day_of_month"] = g("M"), g("D")
    elif rep == "ord":
        kw["day_of_year"] = g("DOY")
    else:
        kw["week_of_year"], kw["day_of_week"] = g("W"), g("WD")
    kw["hour_of_day"], kw["minute_of_hour"], kw["second_of_minute"] = g("h"), g("mi"), g("se")
    kw["time_zone_hour"], kw["time_zone_minute"] = g("tzh"), g("tzm")
    return kw


def build_point(data, kw, ned=None):
    kw = dict(kw)
    y = kw["year"]
    if ned is None:
        ned = 0 if 0 <= y <= 9999 else max(2, len(str(abs(y))) - 4)
    return data.TimePoint(num_expanded_year_digits=ned, **kw)


def rep_of(p):
    if p._month_of_year is not None:
        return "cal"
    if p._day_of_year is not None:
        return "ord"
    if p._week_of_year is not None:
        return "week"
    return None


# ---------------------------------------------------------------------------
# oracle over proxies (z3) and over concrete objects (py)
# ---------------------------------------------------------------------------
def _L(x):
    return lift(x)


def z_daynum(mode, p):
    y = _L(p._year)
    if p._month_of_year is not None:
        return R.daynum_cal(Z, mode, y, _L(p._month_of_year), _L(p._day_of_month))
    if p._day_of_year is not None:
        return R.daynum_ord(Z, mode, y, _L(p._day_of_year))
    return R.daynum_week(Z, mode, y, _L(p._week_of_year), _L(p._day_of_week))


def z_valid_date(mode, p):
    y = _L(p._year)
    if p._month_of_year is not None:
        return R.valid_cal(Z, mode, y, _L(p._month_of_year), _L(p._day_of_month))
    if p._day_of_year is not None:
        return R.valid_ord(Z, mode, y, _L(p._day_of_year))
    return R.valid_week(Z, mode, y, _L(p._week_of_year), _L(p._day_of_week))


def z_tod(p):
    return (_L(p._hour_of_day) * 3600 + _L(p._minute_of_hour) * 60 +
            _L(p._second_of_minute))


def z_offset(p):
    tz = p._time_zone
    return _L(tz._hours) * 3600 + _L(tz._minutes) * 60


def z_instant(mode, p):
    return z_daynum(mode, p) * 86400 + z_tod(p) - z_offset(p)


def z_valid_point(mode, p, allow24=False):
    tz = p._time_zone
    return z3.And(z_valid_date(mode, p),
                  R.valid_time(Z, _L(p._hour_of_day), _L(p._minute_of_hour),
                               _L(p._second_of_minute), allow24=allow24),
                  R.valid_tz(Z, _L(tz._hours), _L(tz._minutes)))


def z_same_zone(p, r):
    return z3.And(_L(p._time_zone._hours) == _L(r._time_zone._hours),
                  _L(p._time_zone._minutes) == _L(r._time_zone._minutes))


def same_rep(p, r):
    return (rep_of(p) == rep_of(r) and
            [a for a in ("_month_of_year", "_day_of_month", "_day_of_year",
                         "_week_of_year", "_day_of_week") if getattr(p, a) is None] ==
            [a for a in ("_month_of_year", "_day_of_month", "_day_of_year",
                         "_week_of_year", "_day_of_week") if getattr(r, a) is None])


def is_int_typed(*xs):
    """python-level type discipline: every value is int or float typed number"""
    for x in xs:
        if not core.sym_isinstance(x, (core.INT, core.FLOAT)):
            return False
    return True


# oracle evaluated concolically on proxies (forks; all queries stay linear) ----
def sym_daynum(mode, form, t):
    return {"cal": R.daynum_cal, "ord": R.daynum_ord, "week": R.daynum_week}[form](P, mode, *t)


def sym_valid(mode, form, t):
    return bool({"cal": R.valid_cal, "ord": R.valid_ord, "week": R.valid_week}[form](P, mode, *t))


# oracle evaluated on proxies WITHOUT forking (merged: ite atoms, linear) -------
M = core.MOps


def fields_of(p, rep=None):
    rep = rep or rep_of(p)
    if rep == "cal":
        return (p._year, p._month_of_year, p._day_of_month)
    if rep == "ord":
        return (p._year, p._day_of_year)
    return (p._year, p._week_of_year, p._day_of_week)


def m_daynum(mode, form, t):
    return {"cal": R.daynum_cal, "ord": R.daynum_ord, "week": R.daynum_week}[form](M, mode, *t)


def m_valid_date(mode, form, t):
    return {"cal": R.valid_cal, "ord": R.valid_ord, "week": R.valid_week}[form](M, mode, *t)


def m_instant(mode, p, rep=None):
    rep = rep or rep_of(p)
    tz = p._time_zone
    return (m_daynum(mode, rep, fields_of(p, rep)) * 86400 +
            p._hour_of_day * 3600 + p._minute_of_hour * 60 + p._second_of_minute -
            tz._hours * 3600 - tz._minutes * 60)


def m_valid_point(mode, p, rep=None, allow24=False):
    """z3 Bool: p is a valid point (merged oracle, no forks)"""
    rep = rep or rep_of(p)
    tz = p._time_zone
    c = M.And(m_valid_date(mode, rep, fields_of(p, rep)),
              R.valid_time(M, p._hour_of_day, p._minute_of_hour, p._second_of_minute, allow24=allow24),
              R.valid_tz(M, tz._hours, tz._minutes))
    return core.zbool(c)[0]


# concrete versions -----------------------------------------------------------
def py_daynum(mode, p):
    if p._month_of_year is not None:
        return R.daynum_cal(P, mode, p._year, p._month_of_year, p._day_of_month)
    if p._day_of_year is not None:
        return R.daynum_ord(P, mode, p._year, p._day_of_year)
    return R.daynum_week(P, mode, p._year, p._week_of_year, p._day_of_week)


def py_valid_date(mode, p):
    if p._month_of_year is not None:
        return R.valid_cal(P, mode, p._year, p._month_of_year, p._day_of_month)
    if p._day_of_year is not None:
        return R.valid_ord(P, mode, p._year, p._day_of_year)
    return R.valid_week(P, mode, p._year, p._week_of_year, p._day_of_week)


def py_instant(mode, p):
    """exact instant (seconds, possibly fractional) of a concrete TimePoint
    with whole h/m or decimal forms"""
    from fractions import Fraction
    h = Fraction(p._hour_of_day)
    mi = Fraction(p._minute_of_hour) if p._minute_of_hour is not None else 0
    s = Fraction(p._second_of_minute) if p._second_of_minute is not None else 0
    tz = p._time_zone
    return (py_daynum(mode, p) * 86400 + h * 3600 + mi * 60 + s -
            tz._hours * 3600 - tz._minutes * 60)


def py_valid_point(mode, p, allow24=False):
    h, mi, s = p._hour_of_day, p._minute_of_hour, p._second_of_minute
    mi = 0 if mi is None else mi
    s = 0 if s is None else s
    okt = (0 <= h < 24 and 0 <= mi < 60 and 0 <= s < 60) or (
        allow24 and h == 24 and mi == 0 and s == 0)
    tz = p._time_zone
    return bool(py_valid_date(mode, p) and okt and
                R.valid_tz(P, tz._hours, tz._minutes))


def describe_point(p):
    try:
        return str(p)
    except Exception as exc:        # e.g. OverflowError for negative years
        return "<%s: %r>" % (type(exc).__name__, {
            a: getattr(p, a, None) for a in p.__slots__
            if a not in ("_time_zone",) and getattr(p, a, None) is not None})


def pkey(p):
    """hashable identity of a concrete TimePoint's state (never raises)"""
    if p is None:
        return None
    tz = p._time_zone
    return tuple(getattr(p, a, None) for a in p.__slots__ if a != "_time_zone") + (tz._hours, tz._minutes, tz._unknown)


def sstr(x):
    """str() that never raises (negative years need expanded digits to print)"""
    try:
        return str(x)
    except Exception:
        if isinstance(x, (list, tuple)):
            return "[%s]" % ", ".join(sstr(y) for y in x)
        if hasattr(x, "_start_point"):
            return "<recurrence R%s start=%s end=%s interval=%s>" % (x._repetitions, sstr(x._start_point), sstr(x._end_point), sstr(x._duration))
        if hasattr(x, "_year"):
            return describe_point(x)
        return "<%s>" % type(x).__name__


def set_mode(data, mode):
    data.CALENDAR.set_mode(mode)
