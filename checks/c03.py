"""C03 -- calendar, ordinal and ISO-week dates are faithful views of one day.

Every obligation runs the real conversion / length function from
metomi/isodatetime/data.py on symbolic arguments and asserts, per path, that
the result is valid in the target form and denotes the same oracle day number
(relational oracle: refmodel).
"""
import z3

import refmodel as R
from refmodel import Z3Ops as Z, PyOps as P
from symx import core
from symx.core import lift, conc
from symx.harness import sym_run
from . import common as C

PROPERTY = "C03"
L = lift


def summary_range(mode):
    """closed form of get_days_in_year_range (the L0 contract), usable on
    proxies: forks on comparisons / quotients only"""
    def f(a, b):
        if a > b:
            return 0
        return R.days_before_year(P, mode, b + 1) - R.days_before_year(P, mode, a)
    return f


def _keep_original(data, name):
    """remember the function the working tree defines (once per process)"""
    orig = data.__dict__.setdefault("_symx_originals", {})
    if name not in orig:
        orig[name] = getattr(data, name)


def install_range_summary(data, mode):
    _keep_original(data, "get_days_in_year_range")
    data.get_days_in_year_range = summary_range(mode)


def install_weeks_summary(data, mode):
    """L1 contract: get_weeks_in_year replaced by the oracle's closed form,
    evaluated on the proxies without forking (C03's week_start obligation
    discharges `get_weeks_in_year(y) == weeks_in_year(y)` for every year)"""
    from symx.core import MOps
    _keep_original(data, "get_weeks_in_year")
    data.get_weeks_in_year = lambda year: R.weeks_in_year(MOps, mode, year)


def uninstall_weeks_summary(data):
    """put the working tree's own get_weeks_in_year back"""
    orig = data.__dict__.get("_symx_originals", {})
    if "get_weeks_in_year" in orig:
        data.get_weeks_in_year = orig["get_weeks_in_year"]


def uninstall_range_summary(data):
    """put the working tree's own get_days_in_year_range back"""
    orig = data.__dict__.get("_symx_originals", {})
    if "get_days_in_year_range" in orig:
        data.get_days_in_year_range = orig["get_days_in_year_range"]


# ---------------------------------------------------------------------------
# jobs
# ---------------------------------------------------------------------------
def job_lengths(ctx, mode, K=C.KWIDE):
    """get_days_in_year / get_days_in_month / get_is_leap_year"""
    data = ctx.data
    C.set_mode(data, mode)

    def make(e):
        return {"y": C.year_input(e, "", K), "m": e.var("M", 1, 12)}

    def body(i):
        return (data.get_days_in_year(i["y"]), data.get_days_in_month(i["m"], i["y"]),
                data.get_days_in_month(i["m"]), data.get_days_in_month(i["m"], None),
                data.get_is_leap_year(i["y"]))

    def post(i, out):
        if out[0] != "ok":
            return [("no exception", False)]
        diy, dim, dim_leap, dim_none, leap = out[1]
        y, m = L(i["y"]), L(i["m"])
        obs = [("days_in_year", L(diy) == R.days_in_year(Z, mode, y)),
               ("days_in_month", L(dim) == R.days_in_month(Z, mode, y, m)),
               ("is_leap_year is the 4/100/400 rule",
                z3.BoolVal(bool(leap)) == R.greg_leap(Z, y))]
        # year="leap" / None: the long / short table of the mode
        ly = 2000 if R.canon(mode) == "gregorian" else 1
        obs.append(("days_in_month(leap)", L(dim_leap) == R.days_in_month(Z, mode, z3.IntVal(ly), m)))
        obs.append(("days_in_month(None)", L(dim_none) == R.days_in_month(Z, mode, z3.IntVal(2001), m)))
        return obs

    def case_of(v, i):
        return {"check": "lengths", "mode": mode, "year": C.year_value(v), "month": v["M"]}

    return sym_run("lengths[%s]" % mode, make, None, body, post, case_of,
                   bounds={"year": "400K+100c+4q+s, K in %s" % (K,), "month": "1..12"},
                   scenarios=lambda i: {"century non-leap": conc(i["y"]) % 100 == 0 and conc(i["y"]) % 400 != 0,
                                        "400-multiple": conc(i["y"]) % 400 == 0,
                                        "negative year": conc(i["y"]) < 0,
                                        "february": conc(i["m"]) == 2},
                   sample_every=3, pins=ctx.pins)


def job_range(ctx, mode, dlo, dhi, K=C.KWIDE, pins=None):
    """L0: the real _get_days_in_year_range(a, a+delta) against the closed form"""
    data = ctx.data
    C.set_mode(data, mode)
    uninstall_range_summary(data)

    def make(e):
        a = C.year_input(e, "", K)
        return {"a": a, "b": a + e.var("delta", dlo, dhi)}

    oracle = summary_range(mode)

    def body(i):
        r = data.get_days_in_year_range(i["a"], i["b"])
        # the oracle's closed form is evaluated on the proxies too (its floor
        # divisions fork on the quotient), so the final query is linear
        return r, oracle(i["a"], i["b"])

    def post(i, out):
        if out[0] != "ok":
            return [("no exception", False)]
        return [("days_in_year_range", L(out[1][0]) == L(out[1][1]))]

    def case_of(v, i):
        a = C.year_value(v)
        return {"check": "range", "mode": mode, "a": a, "b": a + v["delta"]}

    return sym_run("range[%s,%d..%d,%s]" % (mode, dlo, dhi, pins), make, None, body, post, case_of,
                   bounds={"a": "K in %s" % (K,), "delta": [dlo, dhi]},
                   pins=pins, sample_every=50)


def job_since_1ad(ctx, mode, K=C.KWIDE, pins=None):
    data = ctx.data
    C.set_mode(data, mode)
    install_range_summary(data, mode)

    def make(e):
        return {"y": C.year_input(e, "", K)}

    def body(i):
        return data.get_days_since_1_ad(i["y"])

    def post(i, out):
        if out[0] != "ok":
            return [("no exception", False)]
        y = L(i["y"])
        return [("days_since_1_ad", L(out[1]) == z3.If(y < 1, 0, R.days_in_year_range(Z, mode, z3.IntVal(1), y)))]

    return sym_run("since1ad[%s]" % mode, make, None, body, post,
                   lambda v, i: {"check": "since1ad", "mode": mode, "year": C.year_value(v)},
                   bounds={"year": "K in %s" % (K,)}, pins=pins)


def _conv_job(ctx, name, mode, src, fn_name, K, pins, contract=True, span7=None, ranges=None):
    """generic conversion obligation: result valid in target form and same day"""
    data = ctx.data
    C.set_mode(data, mode)
    if contract:
        install_range_summary(data, mode)
    else:
        uninstall_range_summary(data)
    fn = getattr(data, fn_name)
    dst = {"get_ordinal_date_from_calendar_date": "ord",
           "get_calendar_date_from_ordinal_date": "cal",
           "get_week_date_from_calendar_date": "week",
           "get_calendar_date_from_week_date": "cal",
           "get_ordinal_date_from_week_date": "ord",
           "get_week_date_from_ordinal_date": "week"}[fn_name]

    def make(e):
        y = C.year_input(e, "", K)
        if src == "cal":
            return (y, e.var("M", 1, 12), e.var("D", 1, 31))
        if src == "ord":
            return (y, e.var("DOY", 1, 366))
        return (y, e.var("W", 1, 53), e.var("WD", 1, 7))

    def zvalid(form, t):
        t = [L(x) for x in t]
        return {"cal": R.valid_cal, "ord": R.valid_ord, "week": R.valid_week}[form](Z, mode, *t)

    def zday(form, t):
        t = [L(x) for x in t]
        return {"cal": R.daynum_cal, "ord": R.daynum_ord, "week": R.daynum_week}[form](Z, mode, *t)

    pre = None

    def body(i):
        # precondition "a valid date of the mode", assumed on the path (the
        # oracle's validity runs on the proxies; no div/mod reaches z3)
        core.ENG.assume(C.sym_valid(mode, src, i))
        return fn(*i)

    def post(i, out):
        if out[0] != "ok":
            return [("total (no exception on a valid date)", False)]
        r = out[1]
        if not isinstance(r, tuple) or len(r) != len({"cal": "ymd", "ord": "yd", "week": "ywd"}[dst]):
            return [("result shape", False)]
        if ctx_z3_oracle:
            return [("result valid in target form", zvalid(dst, r)),
                    ("same day number", zday(dst, r) == zday(src, i))]
        return [("result valid in target form", C.sym_valid(mode, dst, r)),
                ("same day number", L(C.sym_daynum(mode, dst, r)) == L(C.sym_daynum(mode, src, i)))]

    def case_of(v, i):
        y = C.year_value(v)
        args = {"cal": lambda: [y, v["M"], v["D"]], "ord": lambda: [y, v["DOY"]],
                "week": lambda: [y, v["W"], v["WD"]]}[src]()
        return {"check": "conv", "mode": mode, "fn": fn_name, "src": src, "dst": dst, "args": args}

    def scen(i):
        y = conc(i[0])
        d = {"negative year": y < 0, "year > 9999": y > 9999}
        if src == "cal":
            d["29 feb"] = conc(i[1]) == 2 and conc(i[2]) == 29
            d["31 dec"] = conc(i[1]) == 12 and conc(i[2]) == 31
            d["1 jan"] = conc(i[1]) == 1 and conc(i[2]) == 1
        if src == "ord":
            d["day 366"] = conc(i[1]) == 366
        if src == "week":
            d["week 53"] = conc(i[1]) == 53
            d["week 1"] = conc(i[1]) == 1
        return d

    ctx_z3_oracle = getattr(ctx, "z3_oracle", False)
    opts = {"fork_span7": span7} if span7 else None
    return sym_run("%s[%s,%s,%s]" % (name, mode, pins, ranges), make, pre, body, post, case_of,
                   scenarios=scen, ranges=ranges, bounds={"year": "K in %s" % (K,), "pins": pins,
                                           "contract": "days_in_year_range closed form" if contract else "none"},
                   pins=pins, engine_opts=opts, sample_every=200)


def job_conv(ctx, mode, fn, src, K=C.KWIDE, pins=None, contract=True, span7=None, ranges=None):
    return _conv_job(ctx, fn.replace("get_", "").replace("_date", ""), mode, src, fn, K, pins,
                     contract=contract, span7=span7, ranges=ranges)


def job_week_start(ctx, mode, K=C.KWIDE, pins=None, contract=True, span7=None):
    data = ctx.data
    C.set_mode(data, mode)
    if contract:
        install_range_summary(data, mode)
    else:
        uninstall_range_summary(data)

    def make(e):
        return {"y": C.year_input(e, "", K)}

    def body(i):
        return (data.get_calendar_date_week_date_start(i["y"]),
                data.get_ordinal_date_week_date_start(i["y"]),
                data.get_weeks_in_year(i["y"]))

    def post(i, out):
        if out[0] != "ok":
            return [("no exception", False)]
        cal, ordd, weeks = out[1]
        if not getattr(ctx, "z3_oracle", False):
            mon = R.monday_week1(P, mode, i["y"])
            return [("cal start valid", C.sym_valid(mode, "cal", cal)),
                    ("cal start is monday of week 1", L(C.sym_daynum(mode, "cal", cal)) == L(mon)),
                    ("ord start valid", C.sym_valid(mode, "ord", ordd)),
                    ("ord start is monday of week 1", L(C.sym_daynum(mode, "ord", ordd)) == L(mon)),
                    ("weeks_in_year", L(weeks) == L(R.weeks_in_year(P, mode, i["y"])))]
        y = L(i["y"])
        mon = R.monday_week1(Z, mode, y)
        return [("cal start valid", R.valid_cal(Z, mode, *[L(x) for x in cal])),
                ("cal start is monday of week 1", R.daynum_cal(Z, mode, *[L(x) for x in cal]) == mon),
                ("ord start valid", R.valid_ord(Z, mode, *[L(x) for x in ordd])),
                ("ord start is monday of week 1", R.daynum_ord(Z, mode, *[L(x) for x in ordd]) == mon),
                ("weeks_in_year", L(weeks) == R.weeks_in_year(Z, mode, y))]

    opts = {"fork_span7": span7} if span7 else None
    return sym_run("week_start[%s,%s]" % (mode, pins), make, None, body, post,
                   lambda v, i: {"check": "week_start", "mode": mode, "year": C.year_value(v)},
                   bounds={"year": "K in %s" % (K,), "pins": pins}, pins=pins, engine_opts=opts,
                   scenarios=lambda i: {"year 2000 (reference)": conc(i["y"]) == 2000,
                                        "before reference": conc(i["y"]) < 2000,
                                        "after reference": conc(i["y"]) > 2000},
                   sample_every=20)


# ---------------------------------------------------------------------------
# concrete replay (pristine package, fresh process)
# ---------------------------------------------------------------------------
def replay(case, M):
    data = M.data
    mode = case["mode"]
    data.CALENDAR.set_mode(mode)
    try:
        return _replay(case, data, mode)
    finally:
        data.CALENDAR.set_mode("gregorian")


def _replay(case, data, mode):
    k = case["check"]
    if k == "lengths":
        y, m = case["year"], case["month"]
        got = (data.get_days_in_year(y), data.get_days_in_month(m, y))
        exp = (R.days_in_year(P, mode, y), R.days_in_month(P, mode, y, m))
        return got != exp, "days_in_year/month(%s,%s) = %s, oracle %s" % (y, m, got, exp)
    if k == "range":
        a, b = case["a"], case["b"]
        got = data.get_days_in_year_range(a, b)
        exp = R.days_in_year_range(P, mode, a, b)
        return got != exp, "get_days_in_year_range(%s,%s) = %s, oracle %s" % (a, b, got, exp)
    if k == "since1ad":
        y = case["year"]
        got = data.get_days_since_1_ad(y)
        exp = 0 if y < 1 else R.days_in_year_range(P, mode, 1, y)
        return got != exp, "get_days_since_1_ad(%s) = %s, oracle %s" % (y, got, exp)
    if k == "week_start":
        y = case["year"]
        cal = data.get_calendar_date_week_date_start(y)
        ordd = data.get_ordinal_date_week_date_start(y)
        weeks = data.get_weeks_in_year(y)
        mon = R.monday_week1(P, mode, y)
        ok = (R.valid_cal(P, mode, *cal) and R.daynum_cal(P, mode, *cal) == mon and
              R.valid_ord(P, mode, *ordd) and R.daynum_ord(P, mode, *ordd) == mon and
              weeks == R.weeks_in_year(P, mode, y))
        return not ok, "week start of %s: cal %s ord %s weeks %s; oracle monday %s weeks %s" % (
            y, cal, ordd, weeks, R.py_cal_of_daynum(mode, mon), R.weeks_in_year(P, mode, y))
    if k == "conv":
        fn = getattr(data, case["fn"])
        args = case["args"]
        val = {"cal": R.valid_cal, "ord": R.valid_ord, "week": R.valid_week}
        day = {"cal": R.daynum_cal, "ord": R.daynum_ord, "week": R.daynum_week}
        if not val[case["src"]](P, mode, *args):
            return False, "input not a valid date (precondition)"
        try:
            r = fn(*args)
        except Exception as exc:
            return True, "%s%s raised %s: %s" % (case["fn"], tuple(args), type(exc).__name__, exc)
        ok = val[case["dst"]](P, mode, *r) and day[case["dst"]](P, mode, *r) == day[case["src"]](P, mode, *args)
        return not ok, "%s%s = %s" % (case["fn"], tuple(args), r)
    raise KeyError(k)


# ---------------------------------------------------------------------------
# job lists
# ---------------------------------------------------------------------------
CS16 = [(c, s) for c in range(4) for s in range(4)]
CONV = [("get_ordinal_date_from_calendar_date", "cal"),
        ("get_calendar_date_from_ordinal_date", "ord"),
        ("get_week_date_from_calendar_date", "cal"),
        ("get_calendar_date_from_week_date", "week"),
        ("get_ordinal_date_from_week_date", "week"),
        ("get_week_date_from_ordinal_date", "ord")]
SPLITS = {
    "cal": [{"M": (m, m)} for m in range(1, 13)],
    "ord": [{"DOY": (a, min(a + 30, 366))} for a in range(1, 367, 31)],
    "week": [{"W": (a, min(a + 4, 53))} for a in range(1, 54, 5)],
}


def jobs(tier):
    J = []
    for sp in R.SPELLINGS:
        J.append(("job_lengths", dict(mode=sp)))
    for mode in C.MODES4:
        J.append(("job_range", dict(mode=mode, dlo=-1000000, dhi=-4)))
        J.append(("job_range", dict(mode=mode, dlo=-3, dhi=40)))
        if mode == "gregorian" or tier == "thorough":
            cs = CS16
        else:
            cs = [(0, 0), (3, 3), (1, 2)]
        for c, s in cs:
            J.append(("job_range", dict(mode=mode, dlo=41, dhi=1000000, pins={"c": c, "s": s})))
        J.append(("job_since_1ad", dict(mode=mode)))
        J.append(("job_week_start", dict(mode=mode)))
        for fn, src in CONV:
            if "week" not in fn:
                J.append(("job_conv", dict(mode=mode, fn=fn, src=src)))
            elif tier != "thorough" and (
                    mode in ("365day", "366day") or
                    (mode == "360day" and fn in ("get_ordinal_date_from_week_date",
                                                 "get_week_date_from_ordinal_date"))):
                # quick: the week logic is mode-independent code; it runs under
                # gregorian (all six) and 360day (the two primitive directions)
                continue
            else:
                for r in SPLITS[src]:
                    J.append(("job_conv", dict(mode=mode, fn=fn, src=src, ranges=r)))
    # the three CF spellings select the same calendars: one smoke obligation each
    for sp in ("360_day", "365_day", "366_day"):
        J.append(("job_week_start", dict(mode=sp)))
        J.append(("job_range", dict(mode=sp, dlo=-3, dhi=40)))
    return J


def job_weight(fn, kw):
    if fn == "job_conv" and "week" in kw["fn"]:
        return 30
    if fn == "job_range" and kw["dhi"] > 1000:
        return 20
    return 5


INFO = {
    "explanation": "C03: the six date conversions, week-date starts, weeks-in-year and the year/month/range length "
                   "queries of data.py run on symbolic (year, fields); per path the result must be valid in the "
                   "target form and denote the same oracle day number (refmodel: month tables, 4/100/400 rule, "
                   "Monday = 1, week 1 contains 4 January, 2000-01-03 is a Monday in every mode).",
    "bounds": {
        "quick": {"years": "-1 000 000 .. 999 999 (year = 400K+100c+4q+s, K in [-2500, 2499], c,q,s symbolic)",
                  "dates": "every valid day of every such year; calendar<->ordinal in all 4 modes; week conversions: all four directions under gregorian, calendar<->week under 360day (365day/366day week conversions: thorough tier); week starts and weeks-in-year in all 7 spellings",
                  "days_in_year_range": "start year as above, end = start + delta, delta in [-1e6, 1e6] (gregorian: all residues; fixed-length modes: delta > 40 only for 3 of the 16 (c, s) residue classes)",
                  "layering": "L1 obligations run with get_days_in_year_range replaced by its closed form, which the L0 obligation of this same run discharges against the real body"},
        "thorough": {"as quick, plus": "delta > 40 for all residue classes in every mode; all six conversion directions in all 4 modes"}},
    "outside": ["years beyond +-1 000 000", "TimePoint.to_*/get_* wrapper methods (thin wrappers; exercised by C01/C02/C05 harnesses)"],
    "assumptions": ["L0 closed form of get_days_in_year_range is installed for L1 obligations only after being discharged in the same run (same source digest)"],
}
REQUIRED_SCENARIOS = {"all": ["negative year", "29 feb", "day 366", "week 53", "century non-leap", "400-multiple",
                              "year 2000 (reference)", "before reference", "after reference"]}
