"""C15 -- the active calendar mode alone determines calendar results.

(1) cache-key determinacy (solver): for every lru_cache'd helper of data.py
    (found by introspection on each run) and every pair of mode spellings, the
    key the real public wrapper hands to the cache is recorded under both modes
    on symbolic arguments; wherever the two keys can be equal the un-memoised
    bodies must return equal results.  This is the one inductive step that
    covers histories of any length: "every cache entry equals the uncached
    result for the mode in force" is preserved by every call iff it holds.
(2) mode tables (solver): C03's length obligations under all 7 spellings.
(3) a concrete two-switch sweep on the pristine package with the real caches,
    including --calendar / ISODATETIMECALENDAR through main() (reported
    separately; not a solver verdict).
"""
import itertools
import json
import os
import subprocess
import sys

import z3

import refmodel as R
from symx import core
from symx.core import lift, conc, SymInt
from symx.harness import sym_run, new_result
from . import common as C
from . import c03

PROPERTY = "C15"
L = lift
VERIF = os.path.dirname(os.path.dirname(os.path.abspath(__file__)))

# public wrapper -> (cached private helper it calls, argument generator)
# argument generators return (args tuple for the public wrapper, description)


def _year(e, tag=""):
    return C.year_input(e, tag, K=(-3, 8))


ARGS = {
    "get_is_leap_year": lambda e: (_year(e),),
    "get_days_in_year_range": lambda e: (_year(e), _year(e) + e.var("delta", -2, 6)),
    "get_days_in_year": lambda e: (_year(e),),
    "get_days_in_month": lambda e: (e.var("M", 1, 12), _year(e)),
    "get_weeks_in_year": lambda e: (_year(e),),
    "get_calendar_date_week_date_start": lambda e: (_year(e),),
    "get_days_since_1_ad": lambda e: (_year(e),),
    "get_ordinal_date_week_date_start": lambda e: (_year(e),),
    "iter_months_days": lambda e: (_year(e), e.var("M", 1, 12), e.var("D", 1, 28), False),
}
CASE_ARGS = {
    "get_is_leap_year": lambda v: [C.year_value(v)],
    "get_days_in_year_range": lambda v: [C.year_value(v), C.year_value(v) + v["delta"]],
    "get_days_in_year": lambda v: [C.year_value(v)],
    "get_days_in_month": lambda v: [v["M"], C.year_value(v)],
    "get_weeks_in_year": lambda v: [C.year_value(v)],
    "get_calendar_date_week_date_start": lambda v: [C.year_value(v)],
    "get_days_since_1_ad": lambda v: [C.year_value(v)],
    "get_ordinal_date_week_date_start": lambda v: [C.year_value(v)],
    "iter_months_days": lambda v: [C.year_value(v), v["M"], v["D"], False],
}


def cached_helpers(data):
    """{cached function name: raw body} discovered on this run"""
    return dict(data.__symx_lru__)


def wrapper_of(data, cached_name):
    """the public function that calls the cached helper"""
    pub = cached_name.lstrip("_")
    if pub == cached_name:
        return cached_name          # cached directly (get_is_leap_year)
    return pub


def z_eq(a, b):
    """z3 equality of two results / key components"""
    if isinstance(a, (tuple, list)) and isinstance(b, (tuple, list)):
        if len(a) != len(b):
            return z3.BoolVal(False)
        return z3.And([z_eq(x, y) for x, y in zip(a, b)] or [z3.BoolVal(True)])
    na = isinstance(a, (int, float, SymInt, core.SymBool)) and not isinstance(a, bool) or isinstance(a, bool)
    nb = isinstance(b, (int, float, SymInt, core.SymBool)) and not isinstance(b, bool) or isinstance(b, bool)
    if na and nb:
        return L(a) == L(b)
    return z3.BoolVal(a == b)


def job_cache_key(ctx, fname, m1, m2):
    data = ctx.data
    raw = getattr(data, fname)              # un-memoised body (loader strips lru_cache)
    pub = wrapper_of(data, fname)
    if pub not in ARGS:
        r = new_result("cache_key[%s]" % fname)
        r["error"] = "no argument generator for cached helper %s: uncovered" % fname
        return r
    rec = {}

    def recorder(*a, **k):
        rec["key"] = (a, tuple(sorted(k.items())))
        return None

    def make(e):
        return {"args": ARGS[pub](e)}

    def body(i):
        out = {}
        for tag, m in (("1", m1), ("2", m2)):
            C.set_mode(data, m)
            if pub == fname:
                out["key" + tag] = (tuple(i["args"][:1]), ())
            else:
                setattr(data, fname, recorder)
                try:
                    getattr(data, pub)(*i["args"])
                finally:
                    setattr(data, fname, raw)
                out["key" + tag] = rec["key"]
        keq = z_eq(out["key1"], out["key2"])
        out["keq"] = keq
        if z3.is_false(z3.simplify(keq)):
            return out
        # keys may coincide: the two bodies must agree
        for tag, m in (("1", m1), ("2", m2)):
            C.set_mode(data, m)
            out["res" + tag] = getattr(data, pub)(*i["args"]) if pub != fname else raw(*i["args"][:1])
        return out

    def post(i, out):
        if out[0] != "ok":
            return [("no exception", False)]
        o = out[1]
        if "res1" not in o:
            return [("cache keys differ whenever the modes differ", True)]
        r1, r2 = o["res1"], o["res2"]
        if isinstance(r1, list):
            r1, r2 = tuple(r1), tuple(r2)
        return [("equal cache keys imply equal results", z3.Implies(o["keq"], z_eq(r1, r2)))]

    def case_of(v, i):
        return {"check": "cache_key", "fn": pub, "args": CASE_ARGS[pub](v), "m1": m1, "m2": m2}

    try:
        return sym_run("cache_key[%s,%s->%s]" % (fname, m1, m2), make, None, body, post, case_of,
                       scenarios=lambda i: {"cache-key pair": True},
                       bounds={"years": "-1200..3599", "modes": [m1, m2]}, sample_every=20)
    finally:
        setattr(data, fname, raw)
        C.set_mode(data, "gregorian")


def job_tables(ctx, mode):
    return c03.job_lengths(ctx, mode, K=C.KWIDE)


def job_duration_year(ctx, mode):
    """the year and month lengths durations are converted with follow the mode: a nominal Duration's
    (days, seconds) equivalent is years * <common-year length of the mode> + months * 30 + days"""
    data = ctx.data
    C.set_mode(data, mode)

    def make(e):
        return {"y": e.var("y", -1000, 1000), "mo": e.var("mo", -1000, 1000), "d": e.var("d", -100000, 100000),
                "h": e.var("h", -23, 23)}

    def body(i):
        d = data.Duration(years=i["y"], months=i["mo"], days=i["d"], hours=i["h"])
        one = data.Duration(years=1)
        return d.get_days_and_seconds(), d.get_seconds(), bool(one > data.Duration(days=R.diy_const(mode) - 1)), \
            bool(one < data.Duration(days=R.diy_const(mode) + 1))

    def post(i, out):
        if out[0] != "ok":
            return [("no exception", False)]
        (days, secs), total, gt, lt = out[1]
        want = L(i["y"]) * R.diy_const(mode) + L(i["mo"]) * 30 + L(i["d"])
        tot = want * 86400 + L(i["h"]) * 3600
        return [("a year counts as the mode's common-year length, a month as 30 days", L(days) * 86400 + L(secs) == tot),
                ("get_seconds agrees", L(total) == tot),
                ("P1Y lies strictly between one day less and one day more than the mode's year", gt and lt)]

    def case_of(v, i):
        return {"check": "duration_year", "mode": mode, "kw": {"years": v["y"], "months": v["mo"], "days": v["d"], "hours": v["h"]}}

    return sym_run("duration_year[%s]" % mode, make, None, body, post, case_of,
                   bounds={"years, months": "+-1000", "days": "+-100000", "hours": "+-23"},
                   scenarios=lambda i: {"duration year length": True})


BATTERY = r'''
import json, sys
from metomi.isodatetime import data as d
from metomi.isodatetime.parsers import TimePointParser, TimeRecurrenceParser, DurationParser
# long-lived parser objects, reused across mode switches (as a long-running program would)
_P = TimePointParser(assumed_time_zone=(0, 0), num_expanded_year_digits=2)
_R = TimeRecurrenceParser(_P, DurationParser())
def battery():
    P = _P
    out = []
    def t(f):
        try: out.append(str(f()))
        except Exception as e: out.append("EXC %s" % type(e).__name__)
    for y in (-401, -1, 0, 1, 1900, 1999, 2000, 2001, 2004, 2100, 2400):
        t(lambda: d.get_days_in_year(y)); t(lambda: d.get_weeks_in_year(y)); t(lambda: d.get_is_leap_year(y))
        t(lambda: d.get_calendar_date_week_date_start(y)); t(lambda: d.get_ordinal_date_week_date_start(y))
        t(lambda: d.get_days_in_year_range(y, y + 7)); t(lambda: d.get_days_since_1_ad(y))
        for m in (1, 2, 12): t(lambda: d.get_days_in_month(m, y))
        t(lambda: d.get_ordinal_date_from_calendar_date(y, 3, 1)); t(lambda: d.get_week_date_from_calendar_date(y, 12, 30))
        t(lambda: d.get_calendar_date_from_ordinal_date(y, 360)); t(lambda: d.get_calendar_date_from_week_date(y, 52, 7))
        t(lambda: list(d.iter_months_days(y, 2, 27))[:5])
    for s in ("2000-02-28T12Z", "2001-02-28T12Z", "1999-12-30T23Z", "2004-060T00Z", "2009-W53-7T00Z", "+010000-03-01T00Z"):
        t(lambda: P.parse(s) + d.Duration(days=3)); t(lambda: P.parse(s) + d.Duration(months=1))
        t(lambda: P.parse(s) - P.parse("2000-01-01T00Z")); t(lambda: P.parse(s).to_week_date()); t(lambda: P.parse(s).to_ordinal_date())
        t(lambda: P.parse(s).to_calendar_date() + d.Duration(years=1))
    for s in ("2000-02-30T00Z", "2001-02-29T00Z", "2000-366T00Z", "2001-12-31T00Z", "2004-W53-1T00Z"):
        t(lambda: P.parse(s))
    R = _R
    t(lambda: [str(x) for x in R.parse("R5/2000-02-26T00Z/P1D")]); t(lambda: [str(x) for x in R.parse("R4/2000-01-31T00Z/P1M")])
    t(lambda: str(R.parse("R3/2020-02-28T00Z/P1D").end_point)); t(lambda: str(R.parse("R/2020-02-28T00Z/2020-03-01T00Z").duration))
    t(lambda: P.parse("2024-02-29T00Z")); t(lambda: P.parse("2024-061T00Z") == P.parse("2024-03-01T00Z"))
    t(lambda: str(P.parse("2020-W52-1T00Z") + d.Duration(days=7))); t(lambda: str(P.parse("2016-W52-1T00Z") + d.Duration(days=7)))
    t(lambda: P.parse("2024-03-01T00Z").strftime("%j %F")); t(lambda: hash(P.parse("2024-061T00Z")) == hash(P.parse("2024-03-01T00Z")))
    return out
'''


def sweep_script():
    return BATTERY + r'''
modes = ["gregorian", "360day", "360_day", "365day", "365_day", "366day", "366_day"]
what = sys.argv[1]
if what == "single":
    d.CALENDAR.set_mode(sys.argv[2]); print(json.dumps(battery()))
elif what == "switch":
    res = {}
    for m1 in modes:
        for m2 in modes:
            d.CALENDAR.set_mode(m1); battery(); d.CALENDAR.set_mode(m2); res[m1 + ">" + m2] = battery()
    # three-switch histories
    for m1, m2, m3 in (("360day", "gregorian", "365day"), ("gregorian", "366day", "360day"), ("365day", "360day", "gregorian")):
        d.CALENDAR.set_mode(m1); battery(); d.CALENDAR.set_mode(m2); battery(); d.CALENDAR.set_mode(m3); res[m1 + ">" + m2 + ">" + m3] = battery()
    print(json.dumps(res))
elif what == "cli":
    import io, contextlib, os
    from metomi.isodatetime.main import main
    res = {}
    for m in ("gregorian", "360day", "365day", "366day"):
        for how in ("opt", "env"):
            outs = []
            for argv in (["2000-02-28T00Z", "--offset=P2D"], ["2001-02-28T00Z", "--offset=P2D"], ["1999-12-30T00Z", "--offset=P2D"],
                         ["R3/2000-02-28T00Z/P1D"], ["2000-02-01T00Z", "2000-03-01T00Z"]):
                os.environ.pop("ISODATETIMECALENDAR", None)
                if how == "opt":
                    argv = argv + ["--calendar=" + m]
                else:
                    os.environ["ISODATETIMECALENDAR"] = m
                buf = io.StringIO()
                try:
                    with contextlib.redirect_stdout(buf):
                        main(argv)
                    outs.append(buf.getvalue())
                except SystemExit as e:
                    outs.append("EXIT %s" % (e.code,))
            res[m + ":" + how] = outs
    os.environ.pop("ISODATETIMECALENDAR", None)
    print(json.dumps(res))
'''


def _run_script(code, *args):
    repo = os.environ.get("VERIF_REPO", "/repo")
    env = dict(os.environ, PYTHONPATH=repo)
    p = subprocess.run([sys.executable, "-c", code] + list(args), capture_output=True, text=True, env=env,
                       cwd=repo, timeout=900)
    if p.returncode != 0:
        raise RuntimeError("sweep subprocess failed: %s" % p.stderr[-800:])
    return json.loads(p.stdout.strip().splitlines()[-1])


def job_sweep(ctx):
    """concrete: two-/three-switch histories and the CLI selectors against
    fresh single-mode processes (pristine package, real lru caches)"""
    res = new_result("sweep[concrete]")
    import time
    t0 = time.time()
    code = sweep_script()
    modes = ["gregorian", "360day", "360_day", "365day", "365_day", "366day", "366_day"]
    fresh = {m: _run_script(code, "single", m) for m in modes}
    sw = _run_script(code, "switch")
    n = 0
    for hist, got in sw.items():
        last = hist.split(">")[-1]
        n += 1
        res["obligations"] += 1
        if got == fresh[last]:
            res["discharged"] += 1
            res["trivially"] += 1
        else:
            idx = [k for k, (a, b) in enumerate(zip(got, fresh[last])) if a != b][:3]
            res["candidates"].append({"label": "history %s differs from a fresh %s process" % (hist, last),
                                      "how": "concrete", "case": {"check": "sweep", "history": hist.split(">"),
                                                                  "first_diff": idx}})
    cli = _run_script(code, "cli")
    for m in ("gregorian", "360day", "365day", "366day"):
        res["obligations"] += 1
        if cli[m + ":opt"] == cli[m + ":env"] and all(not o.startswith("EXIT") for o in cli[m + ":opt"]):
            res["discharged"] += 1
            res["trivially"] += 1
        else:
            res["candidates"].append({"label": "--calendar and ISODATETIMECALENDAR disagree for " + m, "how": "concrete",
                                      "case": {"check": "cli", "mode": m}})
    # the CLI results must differ between modes where the calendars differ (the option really selects)
    res["obligations"] += 1
    if len({json.dumps(cli[m + ":opt"]) for m in ("gregorian", "360day", "365day", "366day")}) == 4:
        res["discharged"] += 1
        res["trivially"] += 1
    else:
        res["candidates"].append({"label": "--calendar does not select distinct calendars", "how": "concrete",
                                  "case": {"check": "cli", "mode": "all"}})
    res["paths"] = n + 5
    res["nontrivial_paths"] = n
    res["scenarios"]["concrete sweep"] = {"histories": n}
    res["samples"].append({"history": "360day>gregorian", "battery_items": len(fresh["gregorian"])})
    res["bounds"] = {"histories": "all 49 ordered pairs of the 7 spellings + 3 three-switch histories", "battery": len(fresh["gregorian"])}
    res["wall_s"] = round(time.time() - t0, 2)
    res["notes"].append("concrete sweep, not a solver verdict")
    return res


# ---------------------------------------------------------------------------
def replay(case, M):
    data = M.data
    k = case["check"]
    if k == "lengths":
        return c03.replay(case, M)
    if k == "duration_year":
        data.CALENDAR.set_mode(case["mode"])
        try:
            d = data.Duration(**case["kw"])
            kw = case["kw"]
            want = (kw["years"] * R.diy_const(case["mode"]) + kw["months"] * 30 + kw["days"]) * 86400 + kw["hours"] * 3600
            got = d.get_seconds()
            one = data.Duration(years=1)
            n = R.diy_const(case["mode"])
            bad = got != want or not (one > data.Duration(days=n - 1)) or not (one < data.Duration(days=n + 1))
            return bad, "[%s] %s .get_seconds() = %s, expected %s (year = %d days); P1Y vs P%dD / P%dD: %s %s" % (
                case["mode"], d, got, want, n, n - 1, n + 1, one > data.Duration(days=n - 1), one < data.Duration(days=n + 1))
        finally:
            data.CALENDAR.set_mode("gregorian")
    if k == "cache_key":
        fn = getattr(data, case["fn"])
        args = case["args"]
        data.CALENDAR.set_mode(case["m1"])
        r1 = fn(*args)
        data.CALENDAR.set_mode(case["m2"])
        got = fn(*args)
        code = ("import json,sys; from metomi.isodatetime import data as d; d.CALENDAR.set_mode(%r); "
                "r = d.%s(*%r); print(json.dumps(list(r) if isinstance(r, (list, tuple)) else r))" % (
                    case["m2"], case["fn"], args))
        fresh = _run_script(code)
        g = json.loads(json.dumps(list(got) if isinstance(got, (list, tuple)) else got))
        data.CALENDAR.set_mode("gregorian")
        return g != fresh, "set_mode(%s); %s%s = %s; set_mode(%s); again = %s; a fresh %s process gives %s" % (
            case["m1"], case["fn"], tuple(args), r1, case["m2"], g, case["m2"], fresh)
    if k == "sweep":
        code = sweep_script()
        hist = case["history"]
        prog = BATTERY + "\nfor m in %r[:-1]:\n    d.CALENDAR.set_mode(m); battery()\nd.CALENDAR.set_mode(%r); print(json.dumps(battery()))\n" % (hist, hist[-1])
        got = _run_script(prog)
        fresh = _run_script(code, "single", hist[-1])
        diff = [(i, a, b) for i, (a, b) in enumerate(zip(got, fresh)) if a != b][:3]
        return bool(diff), "history %s: battery items differ from a fresh %s process: %s" % (hist, hist[-1], diff)
    if k == "cli":
        cli = _run_script(sweep_script(), "cli")
        ms = ("gregorian", "360day", "365day", "366day")
        bad = [m for m in ms if cli[m + ":opt"] != cli[m + ":env"] or any(o.startswith("EXIT") for o in cli[m + ":opt"])]
        same = len({json.dumps(cli[m + ":opt"]) for m in ms}) != 4
        return bool(bad or same), "--calendar / ISODATETIMECALENDAR selection: disagreeing modes %s, indistinct %s" % (bad, same)
    raise KeyError(k)


HELPERS = ["get_is_leap_year", "_get_days_in_year_range", "_get_days_in_year", "_get_days_in_month",
           "_get_weeks_in_year", "_get_calendar_date_week_date_start", "_get_days_since_1_ad",
           "_get_ordinal_date_week_date_start", "_iter_months_days"]


def jobs(tier):
    """the helper list is re-discovered by job_discover on every run; the
    static list above only orders the jobs (a helper missing from it is
    reported by job_discover as uncovered)"""
    J = [("job_discover", {})]
    sp = R.SPELLINGS
    pairs = [(a, b) for a in sp for b in sp if a != b and (tier == "thorough" or R.canon(a) != R.canon(b))]
    for f in HELPERS:
        for a, b in pairs:
            J.append(("job_cache_key", dict(fname=f, m1=a, m2=b)))
    for s in sp:
        J.append(("job_tables", dict(mode=s)))
        J.append(("job_duration_year", dict(mode=s)))
    J.append(("job_sweep", {}))
    return J


def job_discover(ctx):
    r = new_result("discover")
    found = sorted(cached_helpers(ctx.data))
    missing = [f for f in found if f not in HELPERS]
    gone = [f for f in HELPERS if f not in found]
    r["obligations"] = r["discharged"] = r["trivially"] = 1
    r["paths"] = 1
    r["samples"].append({"lru_cached_helpers_found": found})
    if missing:
        r["error"] = "lru_cache'd helpers without a harness (uncovered): %s" % missing
    r["notes"].append("no longer cached: %s" % gone if gone else "all listed helpers are cached")
    # memoisations anywhere in the package that this machinery does not know: their transparency is not decided
    new = []
    for name, m in ctx.mods.items():
        for c in getattr(m, "__symx_unknown_caches__", []):
            new.append("%s.%s" % (name, c))
    if new:
        r["error"] = "memoised callables that no check models (cache transparency not decided): %s" % sorted(new)
    # caches outside data.py must not read CALENDAR (dumpers' method caches)
    import inspect
    src = inspect.getsource(ctx.dumpers)
    if "CALENDAR" in src:
        r["error"] = "dumpers.py reads CALENDAR while carrying lru_cache'd methods: not covered"
    return r


def job_weight(fn, kw):
    return {"job_sweep": 100, "job_tables": 2}.get(fn, 3)


INFO = {
    "explanation": "C15: (1) for each lru_cache'd helper of data.py (re-discovered on every run) and each ordered pair of mode "
                   "spellings that select different calendars, the cache key the real wrapper builds is recorded under both modes "
                   "on symbolic arguments; wherever z3 cannot show the keys different, the un-memoised bodies must return equal "
                   "results (the inductive step that makes any history of set_mode calls and computations equal to a fresh "
                   "process); (2) the mode tables (year/month lengths, leap rule) equal the oracle for all 7 spellings and every "
                   "year; (3) a concrete sweep of all 49 two-switch and 3 three-switch histories and of --calendar / "
                   "ISODATETIMECALENDAR through main() against fresh single-mode processes (not a solver verdict).",
    "bounds": {"quick": {"cache keys": "9 cached helpers x 36 ordered spelling pairs with different calendars; years -1200..3599, all months/days",
                         "tables": "years -1 000 000..999 999, 7 spellings", "sweep": "fixed battery of ~300 computations"},
               "thorough": {"cache keys": "all 42 ordered pairs incl. same-calendar spellings"}},
    "outside": ["caches outside data.py (the dumper's method caches are only checked for not reading CALENDAR)",
                "state other than the lru caches and the Calendar singleton"],
    "assumptions": ["functools.lru_cache returns the stored value for an equal key (CPython)",
                    "the recorded key is what the public wrapper passes to the cached helper; helpers nested inside a body run un-memoised"],
}
REQUIRED_SCENARIOS = {"all": ["cache-key pair", "concrete sweep", "february"]}
