"""C18 -- Unix time and the system's local UTC offset are converted exactly.

Real code: timezone.get_local_time_zone, TimePoint.to_local_time_zone,
TimePoint.seconds_since_unix_epoch, get_timepoint_from_seconds_since_unix_epoch,
get_timepoint_properties_from_seconds_since_unix_epoch.
Stub (part of the claim): the `time` module seen by timezone.py is replaced by
an object whose timezone/altzone/daylight/localtime().tm_isdst are arbitrary
values of their documented types (whole-minute offsets within +-24 h).
"""
import z3

import refmodel as R
from refmodel import PyOps as P
from symx import core
from symx.core import lift, conc
from symx.harness import sym_run
from . import common as C
from .c01 import sym_valid_point, sym_instant, result_obligations
from .c03 import install_range_summary

PROPERTY = "C18"
NEEDS_STRING_VALIDATION = True
L = lift


class FakeTime:
    """stands for the `time` module inside metomi.isodatetime.timezone"""

    def __init__(self, std_min_east, dst_min_east, daylight, isdst):
        self.timezone = -60 * std_min_east
        self.altzone = -60 * dst_min_east
        self.daylight = daylight
        self._isdst = isdst

    def localtime(self, *a):
        class _T:
            pass
        t = _T()
        t.tm_isdst = self._isdst
        return t


def tz_inputs(e, lim=1440, split=False):
    """split: offset minutes = 60*H + Mi with 0 <= Mi < 60 (same set of
    offsets; keeps the real code's //60, %60, //3600 linear)"""
    if split:
        hl = lim // 60
        std = e.var("stdH", -hl, hl - 1) * 60 + e.var("stdM", 0, 59)
        dst = e.var("dstH", -hl, hl - 1) * 60 + e.var("dstM", 0, 59)
    else:
        std, dst = e.var("std", -lim, lim), e.var("dst", -lim, lim)
    return {"std": std, "dst": dst,
            "daylight": e.var("daylight", 0, 1), "isdst": e.var("isdst", -1, 1)}


def tz_case(v):
    if "std" in v:
        d = {"std": v["std"], "dst": v["dst"]}
    else:
        d = {"std": 60 * v["stdH"] + v["stdM"], "dst": 60 * v["dstH"] + v["dstM"]}
    d["daylight"], d["isdst"] = v["daylight"], v["isdst"]
    return d


def selected_offset(i):
    """oracle: the offset (minutes east) in effect"""
    if i["isdst"] == 1 and i["daylight"] != 0:
        return i["dst"]
    return i["std"]


def z_pair_ok(h, m, total):
    h, m, total = L(h), L(m), L(total)
    return z3.And(60 * h + m == total, m > -60, m < 60,
                  z3.Implies(total >= 0, z3.And(h >= 0, m >= 0)),
                  z3.Implies(total <= 0, z3.And(h <= 0, m <= 0)))


def job_local_zone(ctx):
    tzmod = ctx.timezone
    data = ctx.data

    def make(e):
        return tz_inputs(e)

    def body(i):
        tzmod.time = FakeTime(i["std"], i["dst"], i["daylight"], i["isdst"])
        try:
            h, m = tzmod.get_local_time_zone()
            return h, m, selected_offset(i)
        finally:
            import time as _t
            tzmod.time = _t

    def post(i, out):
        if out[0] != "ok":
            return [("no exception", False)]
        h, m, total = out[1]
        if not C.is_int_typed(h, m):
            return [("integers", False)]
        return [("(hours, minutes) is the exact offset, both parts carrying its sign", z_pair_ok(h, m, total))]

    def case_of(v, i):
        return dict(tz_case(v), check="local_zone")

    def zsc(i):
        sel = z3.If(z3.And(L(i["isdst"]) == 1, L(i["daylight"]) != 0), L(i["dst"]), L(i["std"]))
        return {"dst in effect": z3.And(L(i["isdst"]) == 1, L(i["daylight"]) == 1),
                "negative offset below one hour": z3.And(sel > -60, sel < 0),
                "negative offset with minutes": z3.And(sel < -60, sel % 60 != 0),
                "zero offset": sel == 0}

    return sym_run("local_zone", make, None, body, post, case_of, scenarios_z3=zsc,
                   scenarios=lambda i: {"dst in effect": conc(i["isdst"]) == 1 and conc(i["daylight"]) == 1,
                                        "negative offset below one hour": -60 < csel(i) < 0,
                                        "negative offset with minutes": csel(i) < -60 and csel(i) % 60 != 0,
                                        "zero offset": csel(i) == 0},
                   bounds={"std/dst offsets": "any whole minute within +-24 h", "daylight": "0/1", "tm_isdst": "-1/0/1"})


def job_to_local(ctx, mode, rep):
    """to_local_time_zone keeps the instant and lands on the local offset"""
    tzmod = ctx.timezone
    data = ctx.data
    C.set_mode(data, mode)
    install_range_summary(data, mode)

    def make(e):
        i = tz_inputs(e, lim=1440, split=True)
        i["p"] = C.point_input(e, data, "", rep)
        return i

    def body(i):
        core.ENG.assume(sym_valid_point(mode, i["p"], rep, True))
        tzmod.time = FakeTime(i["std"], i["dst"], i["daylight"], i["isdst"])
        try:
            return i["p"].to_local_time_zone(), selected_offset(i)
        finally:
            import time as _t
            tzmod.time = _t

    def post(i, out):
        if out[0] != "ok":
            return [("no exception", False)]
        r, total = out[1]
        p = i["p"]
        if C.rep_of(r) != rep:
            return [("keeps representation", False)]
        tz = r._time_zone
        return [("valid fields", sym_valid_point(mode, r, rep, False)),
                ("carries the local offset", z_pair_ok(tz._hours, tz._minutes, total)),
                ("same instant", L(sym_instant(mode, r, rep)) == L(sym_instant(mode, p, rep)))]

    def case_of(v, i):
        return dict(tz_case(v), check="to_local", mode=mode, rep=rep, p=C.point_case(v, "", rep))

    return sym_run("to_local[%s,%s]" % (mode, rep), make, None, body, post, case_of,
                   bounds={"offsets": "system -24:00..+23:59, point -99:59..+99:59", "years": "K in %s" % (C.KWIDE,)},
                   sample_every=50)


def job_seconds_since_epoch(ctx, mode, rep, pins=None, ranges=None, tzh=(-99, 99)):
    """TimePoint.seconds_since_unix_epoch for a symbolic point"""
    data = ctx.data
    C.set_mode(data, mode)
    install_range_summary(data, mode)
    ep = R.daynum_cal(P, mode, 1970, 1, 1) * 86400

    def make(e):
        return {"p": C.point_input(e, data, "", rep, tzh=tzh)}

    def body(i):
        core.ENG.assume(sym_valid_point(mode, i["p"], rep, True))
        return i["p"].seconds_since_unix_epoch

    def post(i, out):
        if out[0] != "ok":
            return [("no exception", False)]
        s = out[1]
        num = getattr(s, "num", None)
        if num is None:
            if isinstance(s, str) and type(s) is str:
                num = int(s)
            else:
                return [("returns the decimal rendering of an integer", False)]
        return [("whole seconds from the epoch to the instant",
                 L(num) == L(sym_instant(mode, i["p"], rep)) - ep),
                ("integer typed", core.sym_isinstance(num, core.INT))]

    def case_of(v, i):
        return {"check": "since_epoch", "mode": mode, "rep": rep, "p": C.point_case(v, "", rep)}

    return sym_run("since_epoch[%s,%s,%s]" % (mode, rep, ranges), make, None, body, post, case_of,
                   pins=pins, ranges=ranges,
                   scenarios=lambda i: {"before 1970": conc(i["p"]._year) < 1970, "after 1970": conc(i["p"]._year) > 1970,
                                        "in 1970": conc(i["p"]._year) == 1970},
                   bounds={"years": "K in %s" % (C.KWIDE,), "offset hours": list(tzh)}, sample_every=50)


def job_from_epoch(ctx, mode, nlo, nhi, utc=True, as_float=False):
    """get_timepoint_from_seconds_since_unix_epoch(n)"""
    tzmod = ctx.timezone
    data = ctx.data
    C.set_mode(data, mode)
    install_range_summary(data, mode)
    ep = R.daynum_cal(P, mode, 1970, 1, 1) * 86400

    def make(e):
        i = {"n": e.var("n", nlo, nhi)}
        if not utc:
            i.update(tz_inputs(e, lim=1440, split=True))
        return i

    def body(i):
        n = core.FLOAT(i["n"]) if as_float else i["n"]
        if utc:
            return data.get_timepoint_from_seconds_since_unix_epoch(n, utc=True), 0
        tzmod.time = FakeTime(i["std"], i["dst"], i["daylight"], i["isdst"])
        try:
            return data.get_timepoint_from_seconds_since_unix_epoch(n, utc=False), selected_offset(i)
        finally:
            import time as _t
            tzmod.time = _t

    def post(i, out):
        if out[0] != "ok":
            return [("no exception", False)]
        r, total = out[1]
        rep = C.rep_of(r)
        if rep is None:
            return [("a full date", False)]
        tz = r._time_zone
        return [("valid fields", sym_valid_point(mode, r, rep, False)),
                ("requested zone", z_pair_ok(tz._hours, tz._minutes, total)),
                ("denotes epoch + n seconds", L(sym_instant(mode, r, rep)) == ep + L(i["n"]))]

    def case_of(v, i):
        c = {"check": "from_epoch", "mode": mode, "n": v["n"], "utc": utc, "as_float": as_float}
        if not utc:
            c.update(tz_case(v))
        return c

    return sym_run("from_epoch[%s,%d..%d,%s%s]" % (mode, nlo, nhi, "utc" if utc else "local", ",float" if as_float else ""),
                   make, None, body, post, case_of,
                   scenarios=lambda i: {"negative n": conc(i["n"]) < 0, "n beyond a year": conc(i["n"]) > 366 * 86400},
                   bounds={"n": [nlo, nhi]}, sample_every=200)


def job_local_format(ctx, fmode):
    """the basic / extended / reduced text forms of the local offset"""
    from symx import strs
    from symx.strs import SymStr, z3_str_eq
    tzmod = ctx.timezone
    M_ = core.MOps

    def make(e):
        return tz_inputs(e, lim=1440, split=True)

    def body(i):
        tzmod.time = FakeTime(i["std"], i["dst"], i["daylight"], i["isdst"])
        try:
            got = tzmod.get_local_time_zone_format(fmode)
            t = selected_offset(i)
            if t == 0:
                return got, "Z"
            neg = bool(t < 0)
            a = -t if neg else t
            hh, mm = M_.div(a, 60), M_.mod(a, 60)
            if fmode == "extended":
                want = strs.fmt_percent("%02d:%02d", (hh, mm))
            elif fmode == "reduced" and bool(mm == 0):
                want = strs.fmt_percent("%02d", hh)
            else:
                want = strs.fmt_percent("%02d%02d", (hh, mm))
            return got, SymStr.make((["-"] if neg else ["+"]) + list(SymStr.lift(want)))
        finally:
            import time as _t
            tzmod.time = _t

    def post(i, out):
        if out[0] != "ok":
            return [("no exception", False)]
        got, want = out[1]
        return [("the text form spells the offset ('Z' for zero)", z3_str_eq(got, want))]

    def case_of(v, i):
        return dict(tz_case(v), check="local_format", fmode=fmode)

    return sym_run("local_format[%s]" % fmode, make, None, body, post, case_of,
                   scenarios=lambda i: {"local offset text:" + fmode: True, "text for zero offset": csel(i) == 0,
                                        "reduced with minutes": fmode == "reduced" and csel(i) % 60 != 0},
                   bounds={"offsets": "std/dst -24:00..+23:59", "mode": fmode})


ZONE_SEQ = [(330, 330, 0, 0), (-180, -120, 1, 1), (0, 60, 1, 0), (-30, 30, 1, 1), (765, 825, 1, 1)]


def _zone_sequence(M):
    """from-epoch / to_local under several system zone configurations, one after the other in one process"""
    bad = []
    data = M.data
    for std, dst, daylight, isdst in ZONE_SEQ + ZONE_SEQ[::-1]:
        M.timezone.time = FakeTime(std, dst, daylight, isdst)
        want = dst if (isdst == 1 and daylight) else std
        for n in (0, 86399, -1, 1234567):
            r = data.get_timepoint_from_seconds_since_unix_epoch(n, utc=False)
            tz = r._time_zone
            if 60 * tz._hours + tz._minutes != want or C.py_instant("gregorian", r) != C.py_instant(
                    "gregorian", data.TimePoint(year=1970)) + n:
                bad.append("system offset %+d min: from_epoch(%d) = %s" % (want, n, r))
        p = data.TimePoint(year=2000, month_of_year=6, day_of_month=15, hour_of_day=12).to_local_time_zone()
        if 60 * p._time_zone._hours + p._time_zone._minutes != want:
            bad.append("system offset %+d min: to_local_time_zone() = %s" % (want, p))
    return bad


def job_zone_sequence(ctx):
    """concrete supplement: no state is carried between system-zone configurations"""
    from symx.harness import new_result
    import types
    res = new_result("zone_sequence[concrete]")
    M = types.SimpleNamespace(data=ctx.data, timezone=ctx.timezone)
    import time as _t
    try:
        bad = _zone_sequence(M)
    finally:
        ctx.timezone.time = _t
    res["obligations"] = res["paths"] = res["nontrivial_paths"] = 2 * len(ZONE_SEQ)
    res["discharged"] = res["trivially"] = res["obligations"] - min(len(bad), res["obligations"])
    if bad:
        res["candidates"].append({"label": "local-zone results follow the current system zone", "how": "concrete",
                                  "case": {"check": "zone_sequence", "mode": "gregorian"}})
    res["scenarios"]["zone sequence"] = {"configs": ZONE_SEQ}
    res["notes"].append("concrete sequence; not a solver verdict")
    return res


# ---------------------------------------------------------------------------
def replay(case, M):
    data = M.data
    mode = case.get("mode", "gregorian")
    data.CALENDAR.set_mode(mode)
    import time as _t
    try:
        return _replay(case, M, data, mode)
    finally:
        data.CALENDAR.set_mode("gregorian")
        M.timezone.time = _t


def csel(i):
    """concrete shadow of the selected offset (no forking)"""
    return conc(i["dst"]) if (conc(i["isdst"]) == 1 and conc(i["daylight"])) else conc(i["std"])


def _sel(case):
    return case["dst"] if (case["isdst"] == 1 and case["daylight"]) else case["std"]


def _pair_ok(h, m, total):
    return (60 * h + m == total and -60 < m < 60 and (total < 0 or (h >= 0 and m >= 0)) and
            (total > 0 or (h <= 0 and m <= 0)))


def _replay(case, M, data, mode):
    k = case["check"]
    if k == "zone_sequence":
        bad = _zone_sequence(M)
        return bool(bad), "; ".join(bad[:3]) or "ok"
    if k in ("local_zone", "to_local", "local_format") or (k == "from_epoch" and not case["utc"]):
        M.timezone.time = FakeTime(case["std"], case["dst"], case["daylight"], case["isdst"])
    if k == "local_zone":
        h, m = M.timezone.get_local_time_zone()
        return not _pair_ok(h, m, _sel(case)), "get_local_time_zone() = (%s, %s) for offset %s min (std %s dst %s daylight %s isdst %s)" % (
            h, m, _sel(case), case["std"], case["dst"], case["daylight"], case["isdst"])
    if k == "local_format":
        got = M.timezone.get_local_time_zone_format(case["fmode"])
        t = _sel(case)
        if t == 0:
            want = "Z"
        else:
            hh, mm = divmod(abs(t), 60)
            sg = "-" if t < 0 else "+"
            want = {"extended": "%s%02d:%02d" % (sg, hh, mm), "normal": "%s%02d%02d" % (sg, hh, mm),
                    "reduced": ("%s%02d" % (sg, hh)) if mm == 0 else "%s%02d%02d" % (sg, hh, mm)}[case["fmode"]]
        return got != want, "get_local_time_zone_format(%s) = %r for offset %s min, expected %r" % (case["fmode"], got, t, want)
    if k == "to_local":
        p = C.build_point(data, case["p"])
        r = p.to_local_time_zone()
        ok = (C.rep_of(r) == C.rep_of(p) and C.py_valid_point(mode, r) and
              _pair_ok(r._time_zone._hours, r._time_zone._minutes, _sel(case)) and
              C.py_instant(mode, r) == C.py_instant(mode, p))
        return not ok, "%s .to_local_time_zone() = %s (system offset %s min)" % (C.describe_point(p), C.describe_point(r), _sel(case))
    ep = R.daynum_cal(P, mode, 1970, 1, 1) * 86400
    if k == "since_epoch":
        p = C.build_point(data, case["p"])
        got = p.seconds_since_unix_epoch
        exp = str(C.py_instant(mode, p) - ep)
        return got != exp, "%s .seconds_since_unix_epoch = %r, expected %r" % (C.describe_point(p), got, exp)
    if k == "from_epoch":
        n = float(case["n"]) if case["as_float"] else case["n"]
        r = data.get_timepoint_from_seconds_since_unix_epoch(n, utc=case["utc"])
        total = 0 if case["utc"] else _sel(case)
        ok = (C.py_valid_point(mode, r) and _pair_ok(r._time_zone._hours, r._time_zone._minutes, total) and
              C.py_instant(mode, r) == ep + case["n"])
        return not ok, "from_epoch(%r, utc=%s) = %s" % (n, case["utc"], C.describe_point(r))
    raise KeyError(k)


def jobs(tier):
    th = tier == "thorough"
    J = [("job_local_zone", {}), ("job_zone_sequence", {})]
    for fm in ("normal", "extended", "reduced"):
        J.append(("job_local_format", dict(fmode=fm)))
    for rep in ["ord"]:            # calendar / week representations exceed the job budget (> 120 000 paths)
        J.append(("job_to_local", dict(mode="gregorian", rep=rep)))
    tzh = (-30, 30) if th else (-14, 14)
    doys = [(a, min(a + 30, 366)) for a in range(1, 367, 31)]
    for mode in C.MODES4:
        greg = mode == "gregorian"
        for lo, hi in (doys if th else ([doys[0], doys[1], doys[-1]] if greg else [doys[0], doys[-1]])):
            J.append(("job_seconds_since_epoch", dict(mode=mode, rep="ord", ranges={"DOY": (lo, hi)}, tzh=tzh)))
        if greg or th:
            for m in (range(1, 13) if th else (1, 2, 3, 12)):
                J.append(("job_seconds_since_epoch", dict(mode=mode, rep="cal", ranges={"M": (m, m)}, tzh=tzh)))
        if greg:
            for w in ((1, 2, 26, 27, 52, 53) if th else (1, 27, 53)):
                for wd in ((1, 3), (4, 7)):
                    J.append(("job_seconds_since_epoch", dict(mode=mode, rep="week", tzh=(-14, 14),
                                                              ranges={"W": (w, w), "WD": wd})))
    yr = 366 * 86400
    span = 6 if th else 2
    for mode in (C.MODES4 if th else ["gregorian", "360day"]):
        for k in range(-span, span):
            J.append(("job_from_epoch", dict(mode=mode, nlo=k * yr, nhi=(k + 1) * yr - 1, utc=True)))
    # windows of +-3 days around calendar boundaries many millennia either side of 1970 (the day count to the window is
    # concrete, the position inside the window is symbolic)
    FAR = [(0, 1, 1), (1, 1, 1), (-1, 3, 1), (1600, 3, 1), (1900, 3, 1), (2100, 3, 1), (4000, 3, 1), (10000, 1, 1),
           (-4000, 3, 1), (-9999, 1, 1), (25000, 1, 1), (-20000, 3, 1)]
    for mode in C.MODES4:
        ep0 = R.daynum_cal(P, mode, 1970, 1, 1)
        for y, m, d in (FAR if mode == "gregorian" or th else FAR[:2] + FAR[5:6] + FAR[9:11]):
            base = (R.daynum_cal(P, mode, y, m, d) - ep0) * 86400
            J.append(("job_from_epoch", dict(mode=mode, nlo=base - 3 * 86400, nhi=base + 3 * 86400, utc=True,
                                             as_float=(y == 1900))))
    b0 = (R.daynum_cal(P, "gregorian", 0, 1, 1) - R.daynum_cal(P, "gregorian", 1970, 1, 1)) * 86400
    J.append(("job_from_epoch", dict(mode="gregorian", nlo=b0 - 2 * 86400, nhi=b0 + 2 * 86400, utc=False)))
    J.append(("job_from_epoch", dict(mode="gregorian", nlo=-yr, nhi=-1, utc=True, as_float=True)))
    J.append(("job_from_epoch", dict(mode="gregorian", nlo=0, nhi=yr, utc=True, as_float=True)))
    J.append(("job_from_epoch", dict(mode="gregorian", nlo=-40 * 86400, nhi=40 * 86400, utc=False)))
    return J


def job_weight(fn, kw):
    if fn == "job_seconds_since_epoch":
        return 90 if kw["rep"] == "week" else 55
    return {"job_to_local": 95, "job_from_epoch": 5}.get(fn, 5)


INFO = {
    "explanation": "C18: get_local_time_zone and the three text forms of get_local_time_zone_format on a stubbed `time` module with symbolic standard/daylight offsets, daylight "
                   "flag and tm_isdst; to_local_time_zone, seconds_since_unix_epoch for symbolic TimePoints; and "
                   "get_timepoint_from_seconds_since_unix_epoch for symbolic n (int and float typed, UTC and stubbed local zone).",
    "bounds": {"quick": {"system zone": "std and dst offsets any whole minute within +-24 h, daylight 0/1, tm_isdst -1/0/1",
                         "seconds_since_unix_epoch": "every year -1 000 000..999 999, offsets -14:59..+14:59, whole seconds; gregorian: ordinal days 1-62 and 335-366, calendar months Jan-Mar and Dec, week dates in weeks 1, 27, 53; other modes: ordinal days 1-31 and 335-366", "to_local_time_zone": "ordinal dates, point offsets -99:59..+99:59",
                         "from epoch": "n in +-2*366 days (gregorian, 360day; the real code walks one day per path); plus windows of +-3 days around 1 Jan / 1 Mar of the years 0, 1, -1, 1600, 1900, 2100, 4000, 10000, -4000, -9999, 25000, -20000 (gregorian; five of them in the other modes), one of them in the stubbed local zone"},
               "thorough": {"from epoch": "n in +-6*366 days, all 4 modes", "seconds_since_unix_epoch": "offsets -30:59..+30:59 (week dates +-14:59, weeks 1, 2, 26, 27, 52, 53); every ordinal/calendar date in all modes", "to_local_time_zone": "3 representations"}},
    "outside": ["the from-epoch direction outside the stated windows", "fractional n",
],
    "assumptions": ["stub: time.timezone/altzone/daylight/localtime().tm_isdst return arbitrary values of their documented types within the stated ranges"],
}
REQUIRED_SCENARIOS = {"all": ["zone sequence", "local offset text:normal", "local offset text:extended", "local offset text:reduced",
                              "text for zero offset", "reduced with minutes", "dst in effect", "negative offset below one hour", "negative offset with minutes",
                              "zero offset", "before 1970", "after 1970", "negative n"]}
