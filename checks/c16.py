"""C16 -- time points, durations, zones and recurrences are immutable values.

Reduction (DESIGN.md section 6, C16): if no single public operation, started
from arbitrary operand states with arbitrary aliasing between operands, changes
any slot of any object reachable from its operands, then by induction on the
length of the program no sequence of operations changes an earlier value,
whatever results share.  The single step is what is checked here: every slot of
every object reachable from the operands is snapshotted, the real operation
runs on symbolic state, and on every path each slot must still hold the same
object or a provably equal number.
"""
import z3

import refmodel as R
from symx import core
from symx.core import lift, conc, SymInt
from symx.harness import sym_run, new_result
from . import common as C
from .c03 import install_range_summary

PROPERTY = "C16"
L = lift


def reachable(objs, data):
    """all library objects reachable from the operands through slots"""
    seen, order = {}, []
    stack = list(objs)
    kinds = (data.TimePoint, data.Duration, data.TimeRecurrence)
    while stack:
        o = stack.pop()
        if not isinstance(o, kinds) or id(o) in seen:
            continue
        seen[id(o)] = o
        order.append(o)
        for cls in type(o).__mro__:
            for sl in getattr(cls, "__slots__", ()):
                v = getattr(o, sl, None)
                if isinstance(v, kinds):
                    stack.append(v)
    return order


def all_slots(o):
    out = []
    for cls in type(o).__mro__:
        for sl in getattr(cls, "__slots__", ()):
            if sl not in out:
                out.append(sl)
    return out


def snapshot(objs, data):
    snap = []
    for o in reachable(objs, data):
        for sl in all_slots(o):
            snap.append((o, sl, getattr(o, sl, "<unset>")))
    return snap


def unchanged(snap):
    """obligations: every snapshotted slot still holds the same value"""
    obs = []
    for o, sl, before in snap:
        after = getattr(o, sl, "<unset>")
        if after is before:
            continue
        num = (int, float, SymInt)
        if isinstance(before, num) and isinstance(after, num) and not isinstance(before, bool):
            if core.sym_isinstance(before, core.FLOAT) != core.sym_isinstance(after, core.FLOAT):
                obs.append(("%s.%s changed numeric type" % (type(o).__name__, sl), False))
            else:
                obs.append(("%s.%s unchanged" % (type(o).__name__, sl), L(before) == L(after)))
        elif before == after and type(before) is type(after) and isinstance(before, (str, bool, type(None))):
            continue
        else:
            obs.append(("%s.%s was replaced (%r -> %r)" % (type(o).__name__, sl, type(before).__name__,
                                                           type(after).__name__), False))
    return obs or [("no slot of any operand changed", True)]


# ---------------------------------------------------------------------------
# operand builders
# ---------------------------------------------------------------------------
def sym_point(e, data, tag, rep):
    return C.point_input(e, data, tag, rep, K=(4, 5), tzh=(-3, 3))


def dur_vars(e, tag, kind):
    """declare the numbers of a Duration (no branching here)"""
    if kind == "weeks":
        return {"weeks": e.var("w" + tag, -8, 8)}
    if kind == "nominal":
        return {"years": e.var("y" + tag, -2, 2), "months": e.var("mo" + tag, -3, 3), "days": e.var("d" + tag, -3, 3)}
    return {"days": e.var("d" + tag, -2, 2), "hours": e.var("h" + tag, -25, 25),
            "minutes": e.var("mi" + tag, -1, 1), "seconds": e.var("s" + tag, -1, 1)}


def sym_duration(e, data, tag, kind):
    return data.Duration(**dur_vars(e, tag, kind))


def trunc_point(data, **kw):
    return data.TimePoint(truncated=True, **kw)


def make_recurrence(data, start, fmt, reps=3):
    D = data.Duration
    # single-point recurrences (the constructor drops their interval)
    if fmt == 31:
        return data.TimeRecurrence(repetitions=1, start_point=start, duration=D(hours=36))
    if fmt == 41:
        return data.TimeRecurrence(repetitions=1, end_point=start, duration=D(hours=36))
    if fmt == 11:
        return data.TimeRecurrence(repetitions=reps, start_point=start, end_point=start)
    if fmt == 3:
        return data.TimeRecurrence(repetitions=reps, start_point=start, duration=D(hours=36))
    if fmt == 4:
        return data.TimeRecurrence(repetitions=reps, end_point=start, duration=D(hours=36))
    if fmt == 1:
        return data.TimeRecurrence(repetitions=reps, start_point=start, end_point=start + D(hours=36))
    return data.TimeRecurrence(start_point=start, duration=D(days=1))       # unbounded


# ---------------------------------------------------------------------------
# the operation table: name -> (operand kinds, callable(ops) -> result)
# ---------------------------------------------------------------------------
def _dumper():
    import sys
    return sys.modules["metomi.isodatetime.dumpers"].TimePointDumper()


def point_ops(data):
    T = {}
    T["p + d"] = (("p", "d"), lambda p, d: p + d)
    T["d + p"] = (("p", "d"), lambda p, d: d + p)
    T["p - d"] = (("p", "d"), lambda p, d: p - d)
    T["p - q"] = (("p", "q"), lambda p, q: p - q)
    T["p - p (aliased)"] = (("p",), lambda p: p - p)
    for name in ("__eq__", "__ne__", "__lt__", "__le__", "__gt__", "__ge__"):
        T["p %s q" % name] = (("p", "q"), (lambda n: lambda p, q: bool(getattr(p, n)(q)))(name))
    T["p == p (aliased)"] = (("p",), lambda p: bool(p == p))
    T["hash(p)"] = (("p",), lambda p: p.__hash__())
    T["p.to_time_zone(z)"] = (("p", "z"), lambda p, z: p.to_time_zone(z))
    T["p.to_time_zone(p.time_zone) (aliased)"] = (("p",), lambda p: p.to_time_zone(p.time_zone))
    T["p.to_utc()"] = (("p",), lambda p: p.to_utc())
    T["p.to_calendar_date()"] = (("p",), lambda p: p.to_calendar_date())
    T["p.to_ordinal_date()"] = (("p",), lambda p: p.to_ordinal_date())
    T["p.to_week_date()"] = (("p",), lambda p: p.to_week_date())
    T["p.to_hour_minute_second()"] = (("p",), lambda p: p.to_hour_minute_second())
    T["p.get_*() getters"] = (("p",), lambda p: (p.get_calendar_date(), p.get_ordinal_date(), p.get_week_date(),
                                                 p.get_hour_minute_second(), p.get_second_of_day(),
                                                 p.get_time_zone_utc(), p.get_props()))
    T["p properties"] = (("p",), lambda p: (p.year, p.month_of_year, p.week_of_year, p.day_of_year, p.day_of_month,
                                           p.day_of_week, p.hour_of_day, p.minute_of_hour, p.second_of_minute,
                                           p.time_zone, p.truncated, p.year_sign, p.century, p.year_of_century,
                                           p.time_zone_sign, p.time_zone_hour_abs, p.time_zone_minute_abs))
    T["p.add_months(n)"] = (("p", "n"), lambda p, n: p.add_months(n))
    T["p.add_months(0) returns self; then + d"] = (("p", "d"), lambda p, d: p.add_months(0) + d)
    T["p.seconds_since_unix_epoch"] = (("p",), lambda p: p.seconds_since_unix_epoch)
    T["p.get_time_zone_offset(q)"] = (("p", "q"), lambda p, q: p.get_time_zone_offset(q))
    T["p + t (truncated)"] = (("p", "t"), lambda p, t: p + t)
    T["t + p (truncated)"] = (("p", "t"), lambda p, t: t + p)
    T["r = p.to_time_zone(z); r + d"] = (("p", "z", "d"), lambda p, z, d: p.to_time_zone(z) + d)
    T["str(p)"] = (("p",), lambda p: str(p))
    T["dump(p, fmt)"] = (("p",), lambda p: (lambda dp: (dp.dump(p, "CCYY-MM-DDThh:mm:ssZ"), dp.dump(p, "CCYYDDDThhmmss+0530"),
                                                         dp.dump(p, "CCYY-Www-DThh:mm+hh:mm")))(_dumper()))
    T["p.strftime(fmt)"] = (("p",), lambda p: (p.strftime("%Y-%m-%dT%H:%M:%S%z"), p.strftime("%j %F %X %s")))
    T["r = p.to_time_zone(z); r.to_utc(); r - p"] = (("p", "z"), lambda p, z: (lambda r: (r.to_utc(), r - p))(p.to_time_zone(z)))
    return T


def duration_ops(data):
    T = {}
    T["d + e"] = (("d", "e"), lambda d, e: d + e)
    T["d + d (aliased)"] = (("d",), lambda d: d + d)
    T["d - e"] = (("d", "e"), lambda d, e: d - e)
    T["d * n, n * d"] = (("d", "n"), lambda d, n: (lambda k: (d * k, k * d))(core.realise(n)))
    T["d // 3"] = (("d",), lambda d: d // 3)
    T["abs(d)"] = (("d",), lambda d: abs(d))
    T["d == e, d != e"] = (("d", "e"), lambda d, e: (bool(d == e), bool(d != e)))
    T["d < e, <=, >, >="] = (("d", "e"), lambda d, e: (bool(d < e), bool(d <= e), bool(d > e), bool(d >= e)))
    T["hash(d), bool(d)"] = (("d",), lambda d: (d.__hash__(), bool(d)))
    T["d.to_days(), d.to_weeks()"] = (("d",), lambda d: (d.to_days(), d.to_weeks() if not d._years and not d._months else None))
    T["d.get_seconds(), get_days_and_seconds(), is_exact()"] = (("d",), lambda d: (d.get_seconds(), d.get_days_and_seconds(), d.is_exact(), d.get_is_in_weeks()))
    T["str(d)"] = (("d",), lambda d: str(d))
    T["str(z)"] = (("z",), lambda z: str(z))
    T["z1 - z2 (zones)"] = (("z", "y"), lambda z, y: z - y)
    T["hash(z), z == y"] = (("z", "y"), lambda z, y: (z.__hash__(), bool(z == y)))
    return T


def recurrence_ops(data):
    T = {}
    T["iterate r (4 points)"] = (("r",), lambda r: [x for _, x in zip(range(4), r)])
    T["r.get_is_valid(q)"] = (("r", "q"), lambda r, q: r.get_is_valid(q))
    T["r.get_is_valid(r.start/end) (aliased)"] = (("r",), lambda r: r.get_is_valid(r.start_point if r.start_point is not None else r.end_point))
    T["r.get_next(q), r.get_prev(q)"] = (("r", "q"), lambda r, q: (r.get_next(q), r.get_prev(q)))
    T["r.get_first_after(q)"] = (("r", "q"), lambda r, q: r.get_first_after(q))
    T["r[1]"] = (("r",), lambda r: r[1])
    T["r + d, d + r, r - d"] = (("r", "d"), lambda r, d: (r + d, d + r, r - d))
    T["str(r)"] = (("r",), lambda r: str(r))
    T["r == s, hash(r)"] = (("r", "s"), lambda r, s: (bool(r == s), r.__hash__()))
    return T


def job_ops(ctx, family, opname, mode, rep, dkind="exact", fmt=3, ranges=None, res=104):
    data = ctx.data
    C.set_mode(data, mode)
    install_range_summary(data, mode)
    table = {"point": point_ops, "duration": duration_ops, "recurrence": recurrence_ops}[family](data)
    kinds, fn = table[opname]
    holder = {}

    def make(e):
        i = {}
        for k in kinds:
            if k == "p":
                i["p"] = sym_point(e, data, "p", rep)
            elif k == "q":
                i["q"] = sym_point(e, data, "q", {"cal": "ord", "ord": "week", "week": "cal"}[rep] if family != "recurrence" else rep)
                if "p" in i:
                    i["q"]._year = i["p"]._year + e.var("dy", -1, 1)
                elif "r" in i:
                    i["q"]._year = i["r"][1]._year + 1
            elif k in ("d", "e"):
                i[k] = ("dur", dur_vars(e, k, dkind))
            elif k in ("z", "y"):
                i[k] = ("tz", e.var("zh" + k, -3, 3), e.var("zm" + k, -59, 59))
            elif k == "n":
                i["n"] = e.var("n", -3, 3)
            elif k == "t":
                i["t"] = ("trunc",)
            elif k in ("r", "s"):
                i[k] = ("rec", sym_point(e, data, k, rep))
        holder["e"] = e
        return i

    def pre(i):
        cs = []
        for k, v in i.items():
            if k in ("p", "q"):
                cs.append(C.m_valid_point(mode, v, None, True))
            elif isinstance(v, tuple) and v[0] == "rec":
                cs.append(C.m_valid_point(mode, v[1], None, False))
            elif isinstance(v, tuple) and v[0] == "tz":
                cs.append(core.zbool(R.valid_tz(C.M, v[1], v[2]))[0])
        return z3.And(cs) if cs else None

    def body(i):
        e = holder["e"]
        ops = []
        for k in kinds:
            v = i[k]
            if isinstance(v, tuple) and v[0] == "dur":
                v = data.Duration(**v[1])
            elif isinstance(v, tuple) and v[0] == "tz":
                v = data.TimeZone(hours=v[1], minutes=v[2])
            elif isinstance(v, tuple) and v[0] == "trunc":
                v = trunc_point(data, hour_of_day=6, minute_of_hour=30) if dkind != "nominal" else trunc_point(data, day_of_month=31)
            elif isinstance(v, tuple) and v[0] == "rec":
                v = make_recurrence(data, v[1], fmt)
            ops.append(v)
        snap = snapshot(ops, data)
        res = fn(*ops)
        # results that share state with operands: operate on them too
        return snap, res

    def post(i, out):
        if out[0] != "ok":
            exc = out[1]
            if isinstance(exc, (ValueError, IndexError, TypeError)) and family != "point":
                return [("(operation refused: nothing to compare)", True)]
            return [("no exception", False)]
        snap, _ = out[1]
        return unchanged(snap)

    def case_of(v, i):
        return {"check": "ops", "family": family, "op": opname, "mode": mode, "rep": rep, "dkind": dkind, "fmt": fmt,
                "values": {k: x for k, x in v.items()}}

    pins = {}
    for t in ("p", "q", "r", "s"):
        pins.update(C.residue_pins(res, t))
    return sym_run("ops[%s,%s,%s,%s,%s,fmt%s]" % (family, opname, mode, rep, dkind, fmt), make, pre, body, post, case_of,
                   ranges=ranges, pins=pins, scenarios=lambda i: {"family:" + family: True},
                   bounds={"years": "400K+%d, K in 4..5" % res, "offsets": "+-3:59", "durations": dkind}, sample_every=200,
                   budget_s=300)


# ---------------------------------------------------------------------------
def replay(case, M):
    """concrete: rebuild the operands from the model values, run the operation,
    compare str/hash/slots of every operand before and after"""
    data = M.data
    mode = case["mode"]
    data.CALENDAR.set_mode(mode)
    try:
        v = case["values"]
        fam, rep = case["family"], case["rep"]
        table = {"point": point_ops, "duration": duration_ops, "recurrence": recurrence_ops}[fam](data)
        kinds, fn = table[case["op"]]

        class E:
            pins = v

            def var(self, name, lo=None, hi=None):
                return v.get(name, lo if lo is not None else 0)
        e = E()
        ops = []
        for k in kinds:
            if k in ("p", "q"):
                r2 = rep if (k == "p" or fam == "recurrence") else {"cal": "ord", "ord": "week", "week": "cal"}[rep]
                kw = C.point_case(v, k, r2)
                if k == "q" and "dy" in v:
                    kw["year"] = C.year_value(v, "p") + v["dy"]
                elif k == "q" and fam == "recurrence":
                    kw["year"] = C.year_value(v, "r") + 1
                ops.append(C.build_point(data, kw))
            elif k in ("d", "e"):
                ops.append(sym_duration(e, data, k, case["dkind"]))
            elif k in ("z", "y"):
                ops.append(data.TimeZone(hours=v["zh" + k], minutes=v["zm" + k]))
            elif k == "n":
                ops.append(v["n"])
            elif k == "t":
                ops.append(trunc_point(data, hour_of_day=6, minute_of_hour=30) if case["dkind"] != "nominal" else trunc_point(data, day_of_month=31))
            elif k in ("r", "s"):
                ops.append(make_recurrence(data, C.build_point(data, C.point_case(v, k, rep)), case["fmt"]))

        def state(objs):
            out = []
            for o in reachable(objs, data):
                out.append((type(o).__name__, [(sl, repr(getattr(o, sl, None))) for sl in all_slots(o)
                                               if not isinstance(getattr(o, sl, None), (data.TimePoint, data.Duration, data.TimeRecurrence))]))
            return out
        before = state(ops)
        try:
            fn(*ops)
        except Exception as exc:
            after = state(ops)
            return before != after, "%s raised %s and changed operand state" % (case["op"], type(exc).__name__)
        after = state(ops)
        diff = [(b, a) for b, a in zip(before, after) if b != a]
        return bool(diff), "%s changed operand state: %s" % (case["op"], diff[:2])
    finally:
        data.CALENDAR.set_mode("gregorian")


def public_surface(data):
    """public callables of the four classes (for the uncovered-report)"""
    names = set()
    for cls in (data.TimePoint, data.Duration, data.TimeZone, data.TimeRecurrence):
        for n in dir(cls):
            if n.startswith("_") and not (n.startswith("__") and n.endswith("__")):
                continue
            if n in ("__class__", "__doc__", "__module__", "__slots__", "__init__", "__new__", "__dir__", "__sizeof__",
                     "__reduce__", "__reduce_ex__", "__getattribute__", "__setattr__", "__delattr__", "__subclasshook__",
                     "__init_subclass__", "__format__", "__getstate__", "__repr__", "__str__"):   # __str__: in the table as str(x)
                continue
            names.add("%s.%s" % (cls.__name__, n))
    return sorted(names)


COVERED_NAMES = """TimePoint.__add__ TimePoint.__sub__ TimePoint.__eq__ TimePoint.__ne__ TimePoint.__lt__ TimePoint.__le__
TimePoint.__gt__ TimePoint.__ge__ TimePoint.__hash__ TimePoint.to_time_zone TimePoint.to_utc TimePoint.to_calendar_date
TimePoint.to_ordinal_date TimePoint.to_week_date TimePoint.to_hour_minute_second TimePoint.get_calendar_date
TimePoint.get_ordinal_date TimePoint.get_week_date TimePoint.get_hour_minute_second TimePoint.get_second_of_day
TimePoint.get_time_zone_utc TimePoint.get_props TimePoint.year TimePoint.month_of_year TimePoint.week_of_year
TimePoint.day_of_year TimePoint.day_of_month TimePoint.day_of_week TimePoint.hour_of_day TimePoint.minute_of_hour
TimePoint.second_of_minute TimePoint.time_zone TimePoint.truncated TimePoint.year_sign TimePoint.century
TimePoint.year_of_century TimePoint.time_zone_sign TimePoint.time_zone_hour_abs TimePoint.time_zone_minute_abs
TimePoint.add_months TimePoint.seconds_since_unix_epoch TimePoint.get_time_zone_offset
Duration.__add__ Duration.__sub__ Duration.__mul__ Duration.__rmul__ Duration.__floordiv__ Duration.__abs__ Duration.__eq__
Duration.__ne__ Duration.__lt__ Duration.__le__ Duration.__gt__ Duration.__ge__ Duration.__hash__ Duration.__bool__
Duration.to_days Duration.to_weeks Duration.get_seconds Duration.get_days_and_seconds Duration.is_exact
Duration.get_is_in_weeks TimeZone.__sub__ TimeZone.__hash__ TimeZone.__eq__
TimeRecurrence.__iter__ TimeRecurrence.get_is_valid TimeRecurrence.get_next TimeRecurrence.get_prev
TimeRecurrence.get_first_after TimeRecurrence.__getitem__ TimeRecurrence.__add__ TimeRecurrence.__sub__
TimeRecurrence.__eq__ TimeRecurrence.__hash__ TimePoint.strftime TimeZone.__str__""".split()


def job_surface(ctx):
    r = new_result("surface")
    pub = public_surface(ctx.data)
    unc = [n for n in pub if n not in COVERED_NAMES and not n.startswith("TimeZone.")]
    r["obligations"] = r["discharged"] = r["trivially"] = 1
    r["paths"] = 1
    r["samples"].append({"public_names": len(pub), "not_exercised_by_this_check": unc})
    r["notes"].append("uncovered public names are listed in samples (reported, not skipped silently)")
    return r


def jobs(tier):
    th = tier == "thorough"
    J = [("job_surface", {})]
    from types import SimpleNamespace
    dummy = SimpleNamespace(TimePoint=None, Duration=None, TimeRecurrence=None, TimeZone=None)
    modes = C.MODES4 if th else ["gregorian"]
    for mode in modes:
        last = {"gregorian": 366, "360day": 360, "365day": 365, "366day": 366}[mode]
        for op in point_ops(dummy):
            reps = C.REPS if th else (["ord", "cal"] if ("p - q" in op or "__" in op or "truncated" in op) else C.REPS)
            for rep in reps:
                kinds = ["exact"]
                if " d" in op or "d " in op:
                    kinds = ["exact", "nominal", "weeks"] if rep == "cal" or th else ["exact"]
                if "truncated" in op:
                    kinds = ["exact", "nominal"]
                for dk in kinds:
                    rg = {"cal": {"Mp": (2, 3), "Dp": (27, 31)}, "ord": {"DOYp": (58, 61)}, "week": {"Wp": (52, 53)}}[rep]
                    if "truncated" in op:
                        rg = dict(rg, hp=(4, 7), mip=(28, 31))
                    if "r + d" in op or op == "p - q":
                        rg = dict(rg, hp=(22, 24), mip=(59, 59), sep=(58, 59), hq=(0, 1), miq=(0, 0))
                    if "p - q" in op or "__" in op or "get_time_zone_offset" in op:
                        rg = dict(rg)
                        rg.update({"cal": {"DOYq": (59, 60)}, "ord": {"Wq": (9, 9)}, "week": {"Mq": (12, 12), "Dq": (30, 31)}}[rep])
                    J.append(("job_ops", dict(family="point", opname=op, mode=mode, rep=rep, dkind=dk, ranges=rg)))
        for op in duration_ops(dummy):
            for dk in ("exact", "nominal", "weeks"):
                J.append(("job_ops", dict(family="duration", opname=op, mode=mode, rep="ord", dkind=dk)))
        for op in recurrence_ops(dummy):
            for fmt in (1, 3, 4, 0, 31, 41) + ((11,) if tier == "thorough" else ()):
                J.append(("job_ops", dict(family="recurrence", opname=op, mode=mode, rep="ord", fmt=fmt,
                                          ranges={"DOYr": (last - 2, last), "DOYs": (last - 2, last), "DOYq": (1, 3), "hd": (-13, 13),
                                                  "dd": (-1, 1)})))
    return J


def job_weight(fn, kw):
    if kw.get("family") == "recurrence":
        return 50
    if kw.get("rep") == "week":
        return 40
    return 10


INFO = {
    "explanation": "C16: single-step immutability. For every public operation of TimePoint, Duration, TimeZone and TimeRecurrence "
                   "(an explicit table; public names outside the table are reported in evidence) the real code runs on symbolic "
                   "operands, including aliased operands (the same object twice, a zone shared with a point, results that are "
                   "the operand itself); every slot of every object reachable from the operands is snapshotted before the call "
                   "and on every path must afterwards hold the same object or a z3-equal number. By induction over program "
                   "length no sequence of operations can then alter an earlier value.",
    "bounds": {"quick": {"points": "years 1704 and 2104, dates around end of February / year end / week 52-53, offsets +-3:59, any time incl. 24:00",
                         "durations": "days +-2, hours +-25, minutes/seconds +-1 (every zero/non-zero/sign pattern); nominal years +-2 months +-3 days +-3; weeks +-8",
                         "formatting": "str() of points, durations, zones and recurrences; TimePointDumper.dump(p, f) for a calendar/Z, an ordinal/literal +0530 and a week/+hh:mm format (each converts representation and zone internally); p.strftime with %Y-%m-%dT%H:%M:%S%z and %j %F %X %s",
                         "recurrences": "3 repetitions of PT36H in the three notations, an unbounded P1D series and single-point recurrences (R1/start/.., R1/../end), anchors on the last three days of the year",
                         "modes": "gregorian"},
               "thorough": {"modes": "all 4", "representations": "every operation in all 3 representations"}},
    "outside": ["formatting other than str(x), TimePointDumper.dump with three fixed formats and strftime with two fixed formats", "private _-methods called directly", "attribute assignment by the user",
                "operand dates outside the stated windows (a mutation that only happens elsewhere would be missed)"],
    "assumptions": ["the operation table is the public surface; names not in it are listed in evidence as not exercised"],
}
REQUIRED_SCENARIOS = {"all": ["family:point", "family:duration", "family:recurrence"]}
