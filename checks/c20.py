"""C20 -- adding a truncated time point finds the next matching date-time.

Real code: TimePoint.__add__ (truncated dispatch, both operand orders),
get_truncated_properties, add_truncated (its stepping loops), to_time_zone,
to_hour_minute_second, to_week_date/to_calendar_date/to_ordinal_date,
_tick_over.
"""
import z3

import refmodel as R
from symx import core
from symx.core import lift, conc
from symx.harness import sym_run, new_result
from . import common as C
from .c01 import same_point_z3
from .c03 import install_range_summary

PROPERTY = "C20"
L = lift
M = core.MOps


TERMINATION_LIMIT_S = 30


def trunc(data, props, tz):
    kw = dict(props)
    if tz is not None:
        kw["time_zone_hour"], kw["time_zone_minute"] = tz
    return data.TimePoint(truncated=True, **kw)


def job_time(ctx, mode, props, tz, rep="ord", order="p+t", ranges=None, tzh=(-3, 3), pdec=None):
    """t names time-of-day fields only.  The matching instants are periodic
    (86400 s if an hour is named, 3600 s if only minute(/second), 60 s if only
    a second), so `earliest match not before p` <=> match and 0 <= r - p < period."""
    data = ctx.data
    C.set_mode(data, mode)
    install_range_summary(data, mode)
    H, MI, S = props.get("hour_of_day"), props.get("minute_of_hour"), props.get("second_of_minute")
    period = 86400 if H is not None else (3600 if MI is not None else 60)
    # documented defaults: fields below the smallest named one are zero
    eMI = MI if MI is not None else (0 if H is not None else None)
    eS = S if S is not None else (0 if (H is not None or MI is not None) else None)

    def make(e):
        p = C.point_input(e, data, "", rep, tzh=tzh, tzm=(0, 0), hmax=23)
        i = {"p": p, "pre": C.m_valid_point(mode, p, rep, False)}
        if pdec:
            # p in a decimal time-precision form (hh,ii / hh:mm,nn; dyadic fraction, integer parts symbolic)
            from .c02 import _decimalise
            _decimalise(p, pdec[0], pdec[1])
        return i

    def pre(i):
        return i["pre"]

    def inst(q, qrep):
        from .c02 import _instant_any
        return _instant_any(mode, q, qrep)

    def body(i):
        p = i["p"]
        t = trunc(data, props, tz)
        r = (p + t) if order == "p+t" else (t + p)
        again = r + t
        return r, again

    def post(i, out):
        if out[0] != "ok":
            return [("no exception", False)]
        p = i["p"]
        r, again = out[1]
        rr = C.rep_of(r)
        if rr is None or r._truncated:
            return [("a full date-time", False)]
        if r._minute_of_hour is None or r._second_of_minute is None:
            return [("the result is written down to the second (fields below the smallest named one are zero)", False)]
        sp, sr = inst(p, rep), C.m_instant(mode, r, rr)
        ip, ir = L(sp), L(sr)
        # local time of r in t's zone (known) or p's zone (unknown); merged arithmetic, no div/mod reaches z3
        off = (tz[0] * 3600 + tz[1] * 60) if tz is not None else (p._time_zone._hours * 3600 + p._time_zone._minutes * 60)
        loc = M.mod(sr + off, 86400)
        h, mi, s = L(M.div(loc, 3600)), L(M.div(M.mod(loc, 3600), 60)), L(M.mod(loc, 60))
        match = []
        if H is not None:
            match.append(h == (0 if H == 24 else H))       # T24 is the end of the day: 00:00 of the next one
        if eMI is not None:
            match.append(mi == eMI)
        if eS is not None:
            match.append(s == eS)
        return [("valid date-time", C.m_valid_point(mode, r, rr, False)),
                ("in p's UTC offset", C.z_same_zone(p, r)),
                ("named fields equal t's, lower fields zero (read in t's zone)", z3.And(match)),
                ("not earlier than p, and the earliest such", z3.And(ir >= ip, ir - ip < period)),
                ("applying t again changes nothing", same_point_z3(r, again))]

    def case_of(v, i):
        kw = C.point_case(v, "", rep)
        if pdec and pdec[0] == "hdec":
            kw.pop("minute_of_hour"), kw.pop("second_of_minute")
            kw["hour_of_day_decimal"] = pdec[1]
        elif pdec:
            kw.pop("second_of_minute")
            kw["minute_of_hour_decimal"] = pdec[1]
        return {"check": "trunc", "mode": mode, "props": props, "tz": list(tz) if tz else None, "order": order,
                "p": kw, "kind": "time"}

    def zsc(i):
        p = i["p"]
        if pdec:
            return {"p in a decimal precision form": z3.BoolVal(True)}
        return {"p already matches": z3.And(L(p._second_of_minute) == (eS or 0), L(p._minute_of_hour) == (eMI or 0))}

    return sym_run("time[%s,%s,tz=%s,%s,%s,%s%s]" % (mode, props, tz, rep, order, ranges, ",pdec=%s" % (pdec,) if pdec else ""), make, pre, body, post, case_of,
                   ranges=ranges, scenarios_z3=zsc,
                   scenarios=lambda i: {"t zone known": tz is not None, "t zone unknown": tz is None, "order " + order: True},
                   bounds={"truncated": props, "t zone": tz, "p offsets": "whole hours %s" % (tzh,)}, sample_every=200)


def job_day(ctx, mode, props, rep="cal", order="p+t", ranges=None, tz=None, lookahead=3, res=None):
    """t names one day designator (day_of_month | day_of_year | day_of_week |
    week_of_year + day_of_week), optionally with an hour.  Oracle: the first
    day not before p (after the time of day has been matched) that carries the
    designator; the search horizon is bounded by `lookahead` periods."""
    data = ctx.data
    C.set_mode(data, mode)
    install_range_summary(data, mode)
    H = props.get("hour_of_day")

    def make(e):
        return {"p": C.point_input(e, data, "", rep, tzh=(-3, 3), tzm=(0, 0), hmax=23)}

    def pre(i):
        return C.m_valid_point(mode, i["p"], rep, False)

    def body(i):
        p = i["p"]
        t = trunc(data, props, tz)
        r = (p + t) if order == "p+t" else (t + p)
        return r, r + t

    def post(i, out):
        if out[0] != "ok":
            return [("no exception", False)]
        p = i["p"]
        r, again = out[1]
        rr = C.rep_of(r)
        if rr is None or r._truncated:
            return [("a full date-time", False)]
        sp, sr = C.m_instant(mode, p, rep), C.m_instant(mode, r, rr)
        ip, ir = L(sp), L(sr)
        off = (tz[0] * 3600 + tz[1] * 60) if tz is not None else (p._time_zone._hours * 3600 + p._time_zone._minutes * 60)
        obs = [("valid date-time", C.m_valid_point(mode, r, rr, False)), ("in p's UTC offset", C.z_same_zone(p, r)),
               ("not earlier than p", ir >= ip), ("applying t again changes nothing", same_point_z3(r, again))]
        # local day number / time of day of p and r in the zone the fields are read in (merged arithmetic)
        dp, dr = M.div(sp + off, 86400), M.div(sr + off, 86400)
        tp, tr = M.mod(sp + off, 86400), M.mod(sr + off, 86400)
        if H is None:
            obs.append(("time of day unchanged", L(tr) == L(tp)))
            d0 = dp                                     # first candidate day
        else:
            obs.append(("hour matched, lower fields zero", L(tr) == H * 3600))
            d0 = M.ite(tp <= H * 3600, dp, dp + 1)
        n0 = R._n0(mode)
        if "day_of_week" in props and "week_of_year" not in props:
            wd = props["day_of_week"]
            obs.append(("falls on the named weekday", L(M.mod(dr - n0, 7)) == wd - 1))
            obs.append(("the first such day", z3.And(L(dr) >= L(d0), L(dr) - L(d0) < 7)))
        else:
            exp = expected_day(mode, props, r, rr, d0, lookahead)
            obs.append(("the first day carrying the designator", z3.And(exp, True)))
            obs.append(("the result is that day", L(dr) == L(expected_daynum(mode, props, r))))
        return obs

    def case_of(v, i):
        return {"check": "trunc", "mode": mode, "props": props, "tz": list(tz) if tz else None, "order": order,
                "p": C.point_case(v, "", rep), "kind": "day"}

    return sym_run("day[%s,%s,tz=%s,%s,%s,%s,res=%s]" % (mode, props, tz, rep, order, ranges, res), make, pre, body, post, case_of,
                   ranges=ranges, pins=C.residue_pins(res) if res is not None else None, scenarios=lambda i: {"day designator " + "+".join(sorted(props)): True},
                   bounds={"truncated": props, "lookahead periods": lookahead}, sample_every=200)


def expected_daynum(mode, props, r):
    """day number of the day in r's own year/month/week-year that carries the designator"""
    if "day_of_month" in props:
        return R.daynum_cal(M, mode, r._year, r._month_of_year, props["day_of_month"])
    if "day_of_year" in props:
        return R.daynum_ord(M, mode, r._year, props["day_of_year"])
    return R.daynum_week(M, mode, r._year, props["week_of_year"], props["day_of_week"])


def expected_day(mode, props, r, rr, d0, lookahead):
    """z3 Bool: r's period carries the designator, its day is not before d0, and
    no earlier period (back to d0's, within `lookahead`) qualifies.  Relational:
    the calendar is never inverted."""
    zb = lambda c: core.zbool(c)[0]
    here = expected_daynum(mode, props, r)
    conds = [zb(here >= d0)]
    if "day_of_month" in props:
        D = props["day_of_month"]
        if rr != "cal":
            return z3.BoolVal(False)
        y, m = r._year, r._month_of_year
        conds += [L(r._day_of_month) == D, zb(D <= R.days_in_month(M, mode, y, m))]
        idx = 12 * y + (m - 1)
        for k in range(1, lookahead + 1):
            j = idx - k
            yy, mm = M.div(j, 12), M.mod(j, 12) + 1
            cand = R.daynum_cal(M, mode, yy, mm, D)
            conds.append(zb(M.Or(cand < d0, D > R.days_in_month(M, mode, yy, mm))))
        j = idx - lookahead
        conds.append(zb(d0 >= R.daynum_cal(M, mode, M.div(j, 12), M.mod(j, 12) + 1, 1)))
        return z3.And(conds)
    if "day_of_year" in props:
        N = props["day_of_year"]
        if rr != "ord":
            return z3.BoolVal(False)
        y = r._year
        conds += [L(r._day_of_year) == N, zb(N <= R.days_in_year(M, mode, y))]
        for k in range(1, lookahead + 1):
            yy = y - k
            cand = R.daynum_ord(M, mode, yy, N)
            conds.append(zb(M.Or(cand < d0, N > R.days_in_year(M, mode, yy))))
        conds.append(zb(d0 >= R.days_before_year(M, mode, y - lookahead)))
        return z3.And(conds)
    W, wd = props["week_of_year"], props["day_of_week"]
    if rr != "week":
        return z3.BoolVal(False)
    y = r._year
    conds += [L(r._week_of_year) == W, L(r._day_of_week) == wd, zb(W <= R.weeks_in_year(M, mode, y))]
    for k in range(1, lookahead + 1):
        yy = y - k
        cand = R.daynum_week(M, mode, yy, W, wd)
        conds.append(zb(M.Or(cand < d0, W > R.weeks_in_year(M, mode, yy))))
    conds.append(zb(d0 >= R.monday_week1(M, mode, y - lookahead)))
    return z3.And(conds)


# ---------------------------------------------------------------------------
IMPOSSIBLE = [("360day", {"week_of_year": 53, "day_of_week": 1}), ("360day", {"week_of_year": 53, "day_of_week": 7}),
              ("gregorian", {"hour_of_day": 24}), ("365day", {"hour_of_day": 24, "minute_of_hour": 0}),
              ("360day", {"week_of_year": 52, "day_of_week": 1}), ("365day", {"week_of_year": 53, "day_of_week": 7})]
IMPOSSIBLE_DRIVER = r"""
import json, signal, sys
from metomi.isodatetime.data import TimePoint, CALENDAR
mode, kw, limit = sys.argv[1], json.loads(sys.argv[2]), int(sys.argv[3])
CALENDAR.set_mode(mode)
p = TimePoint(year=2020, month_of_year=3, day_of_month=10, hour_of_day=6, minute_of_hour=0, second_of_minute=0,
              time_zone_hour=0, time_zone_minute=0)
class Hang(BaseException): pass
def alarm(*a): raise Hang()
signal.signal(signal.SIGALRM, alarm)
try:
    t = TimePoint(truncated=True, **kw)
except ValueError as exc:
    print(json.dumps({"outcome": "refused by the constructor"})); sys.exit(0)
signal.alarm(limit)
try:
    r = p + t
    out = {"outcome": "returned", "value": str(r)}
except Hang:
    out = {"outcome": "hang"}
except ValueError as exc:
    out = {"outcome": "refused", "error": type(exc).__name__}
except Exception as exc:
    out = {"outcome": "crashed", "error": type(exc).__name__ + ": " + str(exc)}
finally:
    signal.alarm(0)
print(json.dumps(out))
"""


def _impossible(mode, kw):
    import json, os, subprocess, sys
    repo = os.environ.get("VERIF_REPO", "/repo")
    p = subprocess.run([sys.executable, "-c", IMPOSSIBLE_DRIVER, mode, json.dumps(kw), str(TERMINATION_LIMIT_S)], capture_output=True,
                       text=True, env=dict(os.environ, PYTHONPATH=repo), cwd=repo, timeout=TERMINATION_LIMIT_S + 60)
    try:
        return json.loads(p.stdout.strip().splitlines()[-1])
    except Exception:
        return {"outcome": "crashed", "error": (p.stderr or "")[-300:]}


def job_termination(ctx):
    """concrete supplement ("the operation terminates"): truncated points the constructor accepts although no (or
    hardly any) date of the active calendar carries the designator, and the 24:00 form, added to a full point in a
    fresh process under a time limit.  Not a solver verdict."""
    res = new_result("termination[concrete]")
    for mode, kw in IMPOSSIBLE:
        res["obligations"] += 1
        res["paths"] += 1
        o = _impossible(mode, kw)
        if o["outcome"] in ("returned", "refused", "refused by the constructor"):
            res["discharged"] += 1
            res["trivially"] += 1
        else:
            res["candidates"].append({"label": "the addition terminates (a result or a ValueError)", "how": "concrete",
                                      "case": {"check": "termination", "mode": mode, "t": kw}})
    res["nontrivial_paths"] = res["paths"]
    res["scenarios"]["termination supplement"] = {"cases": len(IMPOSSIBLE)}
    res["notes"].append("concrete runs in fresh processes under a %d s limit; not a solver verdict" % TERMINATION_LIMIT_S)
    return res


def replay(case, M_):
    if case.get("check") == "termination":
        o = _impossible(case["mode"], case["t"])
        bad = o["outcome"] not in ("returned", "refused", "refused by the constructor")
        return bad, "[%s] 2020-03-10T06:00:00Z + truncated%s: %s" % (case["mode"], case["t"], (
            "did not terminate within %d s" % TERMINATION_LIMIT_S) if o["outcome"] == "hang" else o)
    data = M_.data
    mode = case["mode"]
    data.CALENDAR.set_mode(mode)
    try:
        p = C.build_point(data, case["p"])
        props = case["props"]
        tz = tuple(case["tz"]) if case["tz"] else None
        t = trunc(data, props, tz)
        what = "%s %s" % (C.describe_point(p), props)
        import signal

        class _Hang(BaseException):
            pass

        def _alarm(*a):
            raise _Hang()
        signal.signal(signal.SIGALRM, _alarm)
        signal.alarm(TERMINATION_LIMIT_S)
        try:
            r = (p + t) if case["order"] == "p+t" else (t + p)
            again = r + t
        except _Hang:
            return True, "%s: the addition did not terminate within %d s" % (what, TERMINATION_LIMIT_S)
        except Exception as exc:
            return True, "%s raised %s: %s" % (what, type(exc).__name__, exc)
        finally:
            signal.alarm(0)
        desc = "%s + truncated%s (zone %s) = %s" % (C.describe_point(p), props, tz, C.describe_point(r))
        if r._truncated or not C.py_valid_point(mode, r):
            return True, desc + " is not a valid full date-time"
        if (r._time_zone._hours, r._time_zone._minutes) != (p._time_zone._hours, p._time_zone._minutes):
            return True, desc + " is not in p's UTC offset"
        ip, ir = C.py_instant(mode, p), C.py_instant(mode, r)
        if ir < ip:
            return True, desc + " is earlier than p"
        if str(again) != str(r):
            return True, desc + " but applying t again gives %s" % C.describe_point(again)
        off = (tz[0] * 3600 + tz[1] * 60) if tz is not None else (p._time_zone._hours * 3600 + p._time_zone._minutes * 60)

        def matches(inst):
            loc = inst + off
            day, tod = divmod(loc, 86400)
            h, mi, s = tod // 3600, tod % 3600 // 60, tod % 60
            H, MI, S = props.get("hour_of_day"), props.get("minute_of_hour"), props.get("second_of_minute")
            if H == 24:
                H = 0
            if H is None and MI is None and S is None:
                ptod = (ip + off) % 86400
                if tod != ptod:
                    return False
            else:
                eMI = MI if MI is not None else (0 if H is not None else None)
                eS = S if S is not None else 0
                if (H is not None and h != H) or (eMI is not None and mi != eMI) or s != eS:
                    return False
            y, m, d = R.py_cal_of_daynum(mode, day)
            if "day_of_month" in props and d != props["day_of_month"]:
                return False
            if "day_of_year" in props and R.py_ord_of_daynum(mode, day)[1] != props["day_of_year"]:
                return False
            wy, w, wd = R.py_week_of_daynum(mode, day)
            if "day_of_week" in props and wd != props["day_of_week"]:
                return False
            if "week_of_year" in props and w != props["week_of_year"]:
                return False
            return True
        if not matches(ir):
            return True, desc + " does not carry the fields t names"
        # earliest: scan candidate instants between p and r (second / minute / hour / day steps)
        step = 1 if "second_of_minute" in props or not any(k in props for k in ("hour_of_day", "minute_of_hour")) and not any(
            k.startswith(("day", "week")) for k in props) else 60
        if any(k.startswith(("day", "week")) for k in props):
            # same time of day as r on earlier days
            x = ir - 86400
            while x >= ip:
                if matches(x):
                    return True, desc + " but an earlier match exists %d day(s) before" % ((ir - x) // 86400)
                x -= 86400
        else:
            x = ip
            n = 0
            while x < ir and n < 200000:
                if matches(x):
                    return True, desc + " but an earlier match exists %d s after p" % (x - ip)
                x += 1 if step == 1 else (60 - x % 60 if x % 60 else 60)
                n += 1
        return False, desc
    finally:
        data.CALENDAR.set_mode("gregorian")


def jobs(tier):
    th = tier == "thorough"
    J = [("job_termination", {})]
    for tz in (None, (5, 30)):
        J.append(("job_time", dict(mode="gregorian", props={"hour_of_day": 24}, tz=tz, ranges={"se": (58, 59), "mi": (58, 59), "DOY": (365, 366)})))
    SE = [{"se": (0, 1)}, {"se": (58, 59)}] if not th else [{"se": (0, 4)}, {"se": (28, 32)}, {"se": (55, 59)}]
    for mode in (C.MODES4 if th else ["gregorian"]):
        last = {"gregorian": 366, "360day": 360, "365day": 365, "366day": 366}[mode]
        for tz in (None, (0, 0), (5, 30), (-3, -30)):
            for props in ({"hour_of_day": 6}, {"minute_of_hour": 30}, {"second_of_minute": 15},
                          {"hour_of_day": 0}, {"hour_of_day": 23, "minute_of_hour": 59}):
                for se in SE:
                    if tz not in (None, (5, 30)) and not th and props != {"hour_of_day": 6}:
                        continue
                    rg = dict(se, DOY=(last - 1, last))
                    if "hour_of_day" in props:
                        rg["mi"] = (58, 59) if se["se"][0] else (0, 1)
                    elif "minute_of_hour" in props and tz is not None:
                        rg.update(mi=(28, 31) if se["se"][0] else (58, 59), h=(22, 23))
                    J.append(("job_time", dict(mode=mode, props=props, tz=tz, ranges=rg)))
        J.append(("job_time", dict(mode=mode, props={"hour_of_day": 6}, tz=None, order="t+p", ranges={"se": (0, 1), "mi": (0, 1), "DOY": (last - 1, last)})))
        J.append(("job_time", dict(mode=mode, props={"minute_of_hour": 30}, tz=(5, 30), order="t+p", ranges={"se": (58, 59), "mi": (28, 31), "h": (22, 23), "DOY": (last - 1, last)})))
        J.append(("job_time", dict(mode=mode, props={"hour_of_day": 6}, tz=None, rep="cal", ranges={"se": (0, 1), "mi": (0, 1), "M": (2, 3), "D": (27, 31)})))
        # p written in a decimal precision form (hh,ii / hh:mm,nn)
        for pdec, props, rg in ((("hdec", 0.5), {"hour_of_day": 6}, {"h": (4, 7)}), (("hdec", 0.25), {"minute_of_hour": 30}, {"h": (22, 23)}),
                                (("mdec", 0.5), {"hour_of_day": 6}, {"h": (5, 6), "mi": (58, 59)}), (("mdec", 0.5), {"second_of_minute": 15}, {"h": (23, 23), "mi": (58, 59)}),
                                (("hdec", 0.75), {"hour_of_day": 0}, {"h": (22, 23)})):
            for tz in (None, (5, 30)):
                J.append(("job_time", dict(mode=mode, props=props, tz=tz, pdec=pdec, ranges=dict(rg, DOY=(last - 1, last)))))
        T0 = {"se": (0, 0), "mi": (0, 1)}
        for wd in (1, 4, 7):
            for res in ((104, 399) if not th else (0, 104, 203, 399)):
                J.append(("job_day", dict(mode=mode, props={"day_of_week": wd}, rep="week", res=res, ranges=dict(T0, W=(51, 53)))))
        J.append(("job_day", dict(mode=mode, props={"day_of_week": 3, "hour_of_day": 6}, rep="ord", res=104, ranges=dict(T0, DOY=(last - 3, last), h=(4, 7)))))
        for D in ((1, 15, 28, 29, 30, 31) if th else (1, 29, 31)):
            if D == 31 and mode == "360day":
                continue            # refused by the constructor: no month of this calendar has a 31st
            for m in ((1, 3), (4, 12)) if D >= 29 else ((12, 12),):
                J.append(("job_day", dict(mode=mode, props={"day_of_month": D}, rep="cal", ranges=dict(T0, M=m, h=(0, 0)))))
        J.append(("job_day", dict(mode=mode, props={"day_of_month": 30 if mode == "360day" else 31, "hour_of_day": 6}, rep="cal",
                                  ranges=dict(T0, M=(1, 3), D=(28, 31)))))
        for N in ((1, 60, min(365, last)) if not th else ((1, 60, min(365, last)) + ((366,) if last == 366 else ()))):
            J.append(("job_day", dict(mode=mode, props={"day_of_year": N}, rep="ord", lookahead=9 if N == 366 else 2,
                                      ranges=dict(T0, h=(0, 0), DOY=(1, 3) if N == 1 else ((58, 62) if N == 60 else (last - 3, last))))))
        for W, wd in (((1, 1), (20, 5)) if not th else ((1, 1), (20, 5), (52, 7)) + (((53, 1),) if mode != "360day" else ())):
            for res in ((104, 399) if not th else (0, 104, 203, 399)):
                J.append(("job_day", dict(mode=mode, props={"week_of_year": W, "day_of_week": wd}, rep="week", res=res,
                                          lookahead=8 if W == 53 else 2,
                                          ranges=dict(T0, h=(0, 0), W=(max(1, W - 1), min(53, W + 1))))))
    return J


def job_weight(fn, kw):
    return 40 if fn == "job_day" else 20


INFO = {
    "explanation": "C20: p + t and t + p for a symbolic full TimePoint p and a concrete truncated t (time fields Thh, T-mm, T--ss, "
                   "Thhmm with zone unknown or given; day-of-week, day-of-month, day-of-year, week+weekday, optionally with an "
                   "hour). Per path: r is a valid full date-time in p's offset, not earlier than p, whose named fields (read in "
                   "t's zone if known, else p's) equal t's with lower time fields zero (time of day unchanged if t names no time "
                   "field), r + t == r, and r is the earliest such instant: for time shapes 0 <= r - p < period; for day "
                   "designators no earlier candidate period qualifies (relational oracle, bounded look-back).",
    "bounds": {"quick": {"p": "any year, whole-hour offsets +-3, seconds {0,1,58,59}, minutes near the hour boundary when an hour is named, dates at the year end (time shapes) / around the named day (day shapes)",
                         "t": "T06, T00, T2359, T-30, T--15 with zone unknown or +05:30 (T06 also Z and -03:30); weekday 1/4/7, weekday+hour; day-of-month 1/29/31 (+hour); day-of-year 1/60/365; W01-1, W20-5 (week-date start points: year residues 104 and 399)",
                         "mode": "gregorian"},
               "thorough": {"t": "also day 28/30, day-of-year 366, W52-7, W53-1", "mode": "all 4", "p": "seconds 0-4, 28-32, 55-59; week dates with year residues 0, 104, 203, 399"}},
    "outside": ["truncated year forms (-YY, -z), month-only forms", "fractional seconds", "p seconds outside the stated values in the quick tier",
                "t with minute-offset zones other than +05:30 / -03:30",
                "termination for designators that no date of the active calendar carries: only the six concrete cases of job_termination (run under a 30 s limit; a concrete supplement, not a solver verdict)"],
    "assumptions": ["get_days_in_year_range runs as its closed form (C03)"],
}
REQUIRED_SCENARIOS = {"all": ["termination supplement", "t zone known", "t zone unknown", "order p+t", "order t+p", "p already matches",
                              "day designator day_of_week", "day designator day_of_month", "day designator day_of_year",
                              "day designator day_of_week+week_of_year"]}
