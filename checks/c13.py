"""C13 -- recurrence queries agree with iteration.

Real code: TimeRecurrence.get_is_valid/get_first_after/__getitem__/get_next/
get_prev/_get_is_in_bounds/__iter__ and the TimePoint comparison/arithmetic
under them.  Intervals are concrete (get_first_after divides by the interval's
length); anchors and probes are symbolic.
"""
import z3

import refmodel as R
from symx import core
from symx.core import lift, conc
from symx.harness import sym_run
from . import common as C
from .c01 import same_point_z3
from .c03 import install_range_summary
from .c12 import build, take, anchor_input

PROPERTY = "C13"
L = lift
INTERVALS = {"PT1S": dict(seconds=1), "PT90M": dict(minutes=90), "PT1H": dict(hours=1), "PT36H": dict(hours=36),
             "P1D": dict(days=1), "P1W": dict(weeks=1), "P10D": dict(days=10)}
NOMINAL = {"P1M": dict(months=1), "P1Y": dict(years=1)}


def seconds_of(kw):
    return (kw.get("weeks", 0) * 7 * 86400 + kw.get("days", 0) * 86400 + kw.get("hours", 0) * 3600 +
            kw.get("minutes", 0) * 60 + kw.get("seconds", 0))


def probe_input(e, data, anchor, rep, samezone, window):
    """a probe point near the anchor: same year; for ordinal probes the day is
    the anchor's day + dd with dd in the window; other representations get
    their own date fields (restricted through `ranges`)"""
    p = C.point_input(e, data, "p", rep, tzh=(-3, 3), tzm=(0, 0), hmax=23)
    p._year = anchor._year
    if rep == "ord":
        p._day_of_year = anchor._day_of_year + e.var("dd", window[0], window[1])
    if samezone:
        p._time_zone = C.raw_timezone(data, anchor._time_zone._hours, anchor._time_zone._minutes)
    return p


def probe_case(v, rep, samezone, a_case):
    kw = C.point_case(v, "p", rep)
    kw["year"] = a_case["year"]
    if rep == "ord":
        kw["day_of_year"] = a_case["day_of_year"] + v["dd"]
    if samezone:
        kw["time_zone_hour"], kw["time_zone_minute"] = a_case["time_zone_hour"], a_case["time_zone_minute"]
    return kw


def members_z3(fmt, reps, ia, Ls, upto=8):
    """list of z3 instants of the members (bounded) / the first `upto` (unbounded)"""
    n = reps if reps is not None else upto
    if Ls == 0:
        n = 1
    if fmt == 4 and reps is None:
        return [ia - j * Ls for j in range(n)]
    if fmt == 4:
        return [ia - (n - 1 - j) * Ls for j in range(n)]
    return [ia + j * Ls for j in range(n)]


def job_query(ctx, mode, what, fmt, reps, iv, prep="ord", samezone=True, window=(-3, 6), ranges=None, a24=False, pdec=None):
    """a24: the anchor is written in the 24:00 end-of-day form; pdec=(form, fraction): the probe is written in a
    decimal precision form (hh,ii / hh:mm,nn with a dyadic fraction)"""
    from .c02 import _decimalise, _instant_any
    data = ctx.data
    C.set_mode(data, mode)
    install_range_summary(data, mode)
    kw = INTERVALS[iv]
    Ls = seconds_of(kw)
    if a24:
        ranges = dict(ranges or {}, h=(24, 24), mi=(0, 0), se=(0, 0))

    def make(e):
        a = C.point_input(e, data, "", "ord", tzh=(-3, 3), hmax=24) if a24 else anchor_input(e, data, "", "ord")
        i = {"a": a, "p": probe_input(e, data, a, prep, samezone, window)}
        i["pre"] = z3.And(C.m_valid_point(mode, i["a"], "ord", a24), C.m_valid_point(mode, i["p"], prep, False))
        if pdec:
            _decimalise(i["p"], *pdec)
        return i

    def pre(i):
        return i["pre"]

    def inst_p(p):
        return _instant_any(mode, p, prep) if pdec else C.m_instant(mode, p, prep)

    def body(i):
        a, p = i["a"], i["p"]
        d = data.Duration(**kw)
        r = build(data, fmt, reps, a, d, a + d if fmt == 1 else None)
        if what == "valid":
            return r.get_is_valid(p)
        if what == "first_after":
            return r.get_first_after(p)
        raise KeyError(what)

    def post(i, out):
        if out[0] != "ok":
            return [("no exception", False)]
        a, p, res = i["a"], i["p"], out[1]
        ia, ip = L(C.m_instant(mode, a, "ord")), L(inst_p(p))
        one = reps == 1
        if what == "valid":
            if type(res) is core.SymBool:
                res = bool(res)
            if reps is not None or one:
                mem = z3.Or([ip == m for m in members_z3(fmt, reps, ia, Ls)])
            elif fmt == 4:
                mem = z3.And(ip <= ia, (ia - ip) % Ls == 0)
            else:
                mem = z3.And(ip >= ia, (ip - ia) % Ls == 0)
            return [("get_is_valid(p) <=> iteration yields p's instant", z3.BoolVal(bool(res)) == mem)]
        # first_after: least member instant > ip; first member if p precedes; None if none
        if reps is not None:
            ms = members_z3(fmt, reps, ia, Ls)
            if res is None:
                return [("None only when no member is later than p", z3.And([m <= ip for m in ms]))]
            ir = L(C.m_instant(mode, res, C.rep_of(res)))
            return [("result is a member", z3.Or([ir == m for m in ms])),
                    ("strictly later than p", ir > ip),
                    ("the earliest such member", z3.And([z3.Or(m <= ip, m >= ir) for m in ms])),
                    ("valid point", C.m_valid_point(mode, res, C.rep_of(res), a24))]
        if fmt == 4:
            # unbounded duration/end series: the members are end - k * interval, k >= 0
            if res is None:
                return [("None only when no member is later than p (p at or after the end)", ip >= ia)]
            ir = L(C.m_instant(mode, res, C.rep_of(res)))
            return [("result is a member", z3.And(ir <= ia, (ia - ir) % Ls == 0)), ("strictly later than p", ir > ip),
                    ("the earliest such member", ir - Ls <= ip),
                    ("valid point", C.m_valid_point(mode, res, C.rep_of(res), False))]
        if res is None:
            return [("an unbounded start-anchored series always has a later member", False)]
        ir = L(C.m_instant(mode, res, C.rep_of(res)))
        return [("result is a member", z3.And(ir >= ia, (ir - ia) % Ls == 0)), ("strictly later than p", ir > ip),
                ("the earliest such member", z3.Or(ir - Ls <= ip, ir == ia)),
                ("valid point", C.m_valid_point(mode, res, C.rep_of(res), False))]

    def case_of(v, i):
        ac = C.point_case(v, "", "ord")
        pc = probe_case(v, prep, samezone, ac)
        if pdec:
            pc.pop("second_of_minute")
            if pdec[0] == "hdec":
                pc.pop("minute_of_hour")
                pc["hour_of_day_decimal"] = pdec[1]
            else:
                pc["minute_of_hour_decimal"] = pdec[1]
        return {"check": what, "mode": mode, "fmt": fmt, "reps": reps, "iv": iv, "a": ac, "p": pc}

    def zsc(i):
        ia, ip = L(C.m_instant(mode, i["a"], "ord")), L(inst_p(i["p"]))
        d = {"probe before the series": ip < ia - (Ls * ((reps or 1) - 1) if fmt == 4 else 0),
             "probe on a member": ip == ia, "probe between members": z3.And(ip > ia, ip < ia + Ls)}
        if a24:
            d = {"anchor written as 24:00, probe on a member": z3.Or([ip == m for m in members_z3(fmt, reps, ia, Ls)]) if reps else ip == ia}
        if pdec:
            d = {"probe in a decimal precision form, on a member": z3.Or([ip == m for m in members_z3(fmt, reps, ia, Ls)]) if reps else ip == ia}
        if reps is not None and fmt != 4:
            d["probe on the last member"] = ip == ia + (reps - 1) * Ls
            d["probe after the series"] = ip > ia + (reps - 1) * Ls
        return d

    return sym_run("%s[%s,fmt%d,R%s,%s,probe %s%s,%s%s%s]" % (what, mode, fmt, reps, iv, prep, "" if samezone else " other zone", ranges,
                                                          ",a24" if a24 else "", ",pdec=%s" % (pdec,) if pdec else ""),
                   make, pre, body, post, case_of, scenarios_z3=zsc, ranges=ranges,
                   scenarios=lambda i: {"query:" + what: True},
                   bounds={"interval": iv, "repetitions": reps, "probe": "anchor's year, day offset %s" % (window,)},
                   sample_every=100)


def job_neighbours(ctx, mode, fmt, reps, iv, ranges=None, nominal=False, rep=None, k=None, pins=None):
    """r[i] is the i-th iterated point; get_next/get_prev of a member is the
    adjacent member, None at the ends of a bounded series"""
    data = ctx.data
    C.set_mode(data, mode)
    install_range_summary(data, mode)
    kw = NOMINAL[iv] if nominal else INTERVALS[iv]
    k = k or (reps if reps is not None else 4)
    rep = rep or ("cal" if nominal else "ord")

    def make(e):
        return {"a": anchor_input(e, data, "", rep)}

    def pre(i):
        return C.m_valid_point(mode, i["a"], rep, False)

    def body(i):
        a = i["a"]
        d = data.Duration(**kw)
        r = build(data, fmt, reps, a, d, a + d if fmt == 1 else None)
        pts = take(r, k)
        items = []
        for j in range(len(pts)):
            items.append(r[j])
        try:
            r[len(pts)] if reps is not None else None
            beyond = "no IndexError" if reps is not None else None
        except IndexError:
            beyond = None
        nxt = [r.get_next(x) for x in pts]
        prv = [r.get_prev(x) for x in pts]
        return pts, items, beyond, nxt, prv

    def post(i, out):
        if out[0] != "ok":
            return [("no exception", False)]
        pts, items, beyond, nxt, prv = out[1]
        obs = [("r[i] is the i-th iterated point", z3.And([same_point_z3(x, y) for x, y in zip(pts, items)] or [z3.BoolVal(True)])),
               ("r[n] raises IndexError on a bounded series", beyond is None)]
        n = len(pts)
        rev = (fmt == 4 and reps is None)            # iteration runs backwards from the end
        for j in range(n):
            fwd, bwd = (prv, nxt) if rev else (nxt, prv)
            # in the direction of iteration
            if j + 1 < n:
                ok = fwd[j] is not None and same_point_z3(fwd[j], pts[j + 1])
                obs.append(("moving on from member %d gives member %d" % (j, j + 1), ok))
            elif reps is not None:
                obs.append(("moving on from the last member gives None", fwd[j] is None))
            if not nominal:
                if j > 0:
                    ok = bwd[j] is not None and same_point_z3(bwd[j], pts[j - 1])
                    obs.append(("moving back from member %d gives member %d" % (j, j - 1), ok))
                elif reps is not None or fmt != 4:
                    obs.append(("moving back from the first member gives None", bwd[j] is None))
        return obs

    def case_of(v, i):
        return {"check": "neighbours", "mode": mode, "fmt": fmt, "reps": reps, "iv": iv, "nominal": nominal,
                "a": C.point_case(v, "", rep), "k": k}

    return sym_run("neighbours[%s,fmt%d,R%s,%s,%s,%s,k=%d]" % (mode, fmt, reps, iv, rep, ranges, k), make, pre, body, post, case_of, ranges=ranges, pins=pins,
                   scenarios=lambda i: {"neighbours": True, "neighbours nominal": nominal},
                   bounds={"interval": iv, "repetitions": reps}, sample_every=100)


def job_first_after_nominal(ctx, mode, iv, reps=None, ranges=None, k=6, fmt=3):
    """get_first_after with a month/year interval: the earliest member (taken
    from the real iterator) strictly later than the probe"""
    data = ctx.data
    C.set_mode(data, mode)
    install_range_summary(data, mode)
    kw = NOMINAL[iv]

    def make(e):
        return {"a": anchor_input(e, data, "", "cal"), "dd": e.var("dd", -2, 2), "hh": e.var("hh", -1, 1),
                "mm": e.var("mm", -1, 5 if iv == "P1M" else 1), "yy": e.var("yy", 0, 0 if iv == "P1M" else 3)}

    def pre(i):
        return C.m_valid_point(mode, i["a"], "cal", False)

    def body(i):
        a = i["a"]
        d = data.Duration(**kw)
        r = build(data, fmt, reps, a, d)
        sg = -1 if fmt == 4 else 1          # a duration/end series runs backwards from its anchor
        probe = (a + data.Duration(years=sg * i["yy"], months=sg * i["mm"])) + data.Duration(days=i["dd"], hours=i["hh"])
        return take(r, k), probe, r.get_first_after(probe)

    def post(i, out):
        if out[0] != "ok":
            return [("no exception", False)]
        pts, probe, res = out[1]
        ip = L(C.m_instant(mode, probe, "cal"))
        ms = [L(C.m_instant(mode, x, "cal")) for x in pts]
        if res is None:
            if reps is None and fmt != 4:
                return [("an unbounded series always has a later member", False)]
            return [("None only when no member is later than p", z3.And([m <= ip for m in ms]))]
        ir = L(C.m_instant(mode, res, C.rep_of(res)))
        inwin = ip < ms[-1] if reps is None else z3.BoolVal(True)     # the probe lies before the last sampled member
        if fmt == 4 and reps is None:
            inwin = ip >= ms[-1]                                     # ... not before the earliest sampled member
        return [("result is the earliest member strictly later than p",
                 z3.Implies(inwin, z3.And(z3.Or([ir == m for m in ms]), ir > ip, z3.And([z3.Or(m <= ip, m >= ir) for m in ms]))))]

    def case_of(v, i):
        return {"check": "first_after_nominal", "mode": mode, "iv": iv, "reps": reps, "a": C.point_case(v, "", "cal"),
                "dd": v["dd"], "hh": v["hh"], "mm": v["mm"], "yy": v["yy"], "k": k, "fmt": fmt}

    return sym_run("first_after_nominal[%s,%s,R%s,%s,fmt%d]" % (mode, iv, reps, ranges, fmt), make, pre, body, post, case_of, ranges=ranges,
                   scenarios=lambda i: {"first_after nominal": True, "probe before the nominal series": conc(i["dd"]) < 0},
                   bounds={"interval": iv, "repetitions": reps, "probe": "anchor + (-1..5 months | 0..3 years -1..1 months) + (-2..2 days, -1..1 h)"}, sample_every=100)


# ---------------------------------------------------------------------------
def replay(case, M):
    data = M.data
    mode = case["mode"]
    data.CALENDAR.set_mode(mode)
    try:
        what = case["check"]
        if what == "first_after_nominal":
            d = data.Duration(**NOMINAL[case["iv"]])
            a = C.build_point(data, case["a"])
            fmt = case.get("fmt", 3)
            r = build(data, fmt, case["reps"], a, d)
            sg = -1 if fmt == 4 else 1
            probe = (a + data.Duration(years=sg * case.get("yy", 0), months=sg * case["mm"])) + data.Duration(days=case["dd"], hours=case["hh"])
            try:
                got = r.get_first_after(probe)
            except Exception as exc:
                return True, "%s .get_first_after(%s) raised %s: %s" % (r, probe, type(exc).__name__, exc)
            ip = C.py_instant(mode, probe)
            later = [x for x in take(r, 400 if case["reps"] is None else case["reps"]) if C.py_instant(mode, x) > ip]
            exp = min(later, key=lambda x: C.py_instant(mode, x)) if later else None
            bad = (got is None) != (exp is None) or (got is not None and C.py_instant(mode, got) != C.py_instant(mode, exp))
            return bad, "%s .get_first_after(%s) = %s, the earliest later member is %s" % (r, probe, got, exp)
        nominal = case.get("nominal", False)
        kw = (NOMINAL if nominal else INTERVALS)[case["iv"]]
        d = data.Duration(**kw)
        a = C.build_point(data, case["a"])
        fmt, reps = case["fmt"], case["reps"]
        r = build(data, fmt, reps, a, d, a + d if fmt == 1 else None)
        if what == "neighbours":
            k = case.get("k") or (reps if reps is not None else 4)
            pts = take(r, k)
            for j, x in enumerate(pts):
                if str(r[j]) != str(x):
                    return True, "%s: r[%d] = %s but iteration gives %s" % (r, j, r[j], x)
            rev = fmt == 4 and reps is None
            for j, x in enumerate(pts):
                fwd = r.get_prev(x) if rev else r.get_next(x)
                bwd = r.get_next(x) if rev else r.get_prev(x)
                if j + 1 < len(pts):
                    if fwd is None or str(fwd) != str(pts[j + 1]):
                        return True, "%s: moving on from %s gives %s, the next member is %s" % (r, x, fwd, pts[j + 1])
                elif reps is not None and fwd is not None:
                    return True, "%s: moving on from the last member %s gives %s, expected None" % (r, x, fwd)
                if not nominal:
                    if j > 0 and (bwd is None or str(bwd) != str(pts[j - 1])):
                        return True, "%s: moving back from %s gives %s, the previous member is %s" % (r, x, bwd, pts[j - 1])
                    if j == 0 and (reps is not None or fmt != 4) and bwd is not None:
                        return True, "%s: moving back from the first member %s gives %s, expected None" % (r, x, bwd)
            return False, "%s neighbours ok" % r
        p = C.build_point(data, case["p"])
        ip = C.py_instant(mode, p)
        Ls = seconds_of(kw)
        if what == "valid":
            got = r.get_is_valid(p)
            mem = [C.py_instant(mode, x) for x in take(r, 400)]
            if reps is None:
                exp = ((ip - C.py_instant(mode, a)) % Ls == 0) and (ip <= C.py_instant(mode, a) if fmt == 4 else ip >= C.py_instant(mode, a))
            else:
                exp = ip in mem
            return bool(got) != bool(exp), "%s .get_is_valid(%s) = %s, iteration says %s" % (r, C.describe_point(p), got, exp)
        try:
            got = r.get_first_after(p)
        except Exception as exc:
            return True, "%s .get_first_after(%s) raised %s: %s" % (r, C.describe_point(p), type(exc).__name__, exc)
        mem = take(r, 400 if reps is None else reps)
        later = [x for x in mem if C.py_instant(mode, x) > ip]
        exp = min(later, key=lambda x: C.py_instant(mode, x)) if later else None
        if reps is None and fmt == 4 and len(later) == len(mem):
            return False, "probe before the sampled prefix of the backwards series"
        if reps is None and fmt != 4 and not later:
            return False, "probe beyond the sampled prefix"
        bad = (got is None) != (exp is None) or (got is not None and C.py_instant(mode, got) != C.py_instant(mode, exp))
        return bad, "%s .get_first_after(%s) = %s, expected %s" % (r, C.describe_point(p), got, exp)
    finally:
        data.CALENDAR.set_mode("gregorian")


def jobs(tier):
    th = tier == "thorough"
    J = []
    A = [{"DOY": (100, 101)}, {"DOY": (360, 361)}]
    for mode in (C.MODES4 if th else ["gregorian"]):
        lastd = {"gregorian": 366, "360day": 360, "365day": 365, "366day": 366}[mode]
        for iv in INTERVALS:
            win = {"PT1S": (0, 0), "PT90M": (-1, 1), "PT1H": (-1, 1), "PT36H": (-3, 6), "P1D": (-2, 4), "P1W": (-8, 22), "P10D": (-11, 31)}[iv]
            for fmt, repss in ((3, (1, 2, 3, None)), (1, (3,)), (4, (3, None))):
                for reps in repss:
                    for a in (A if iv in ("PT36H", "P1D") or th else A[:1]):
                        rg = dict(a)
                        if iv in ("PT1S", "PT90M", "PT1H"):
                            rg.update({"h": (22, 23), "hp": (21, 23)} if iv != "PT1S" else {"h": (23, 23), "mi": (59, 59), "hp": (23, 23), "mip": (59, 59)})
                        J.append(("job_query", dict(mode=mode, what="valid", fmt=fmt, reps=reps, iv=iv, window=win, ranges=rg)))
                        J.append(("job_query", dict(mode=mode, what="first_after", fmt=fmt, reps=reps, iv=iv, window=win, ranges=rg)))
        # anchors written as 24:00 and probes written in a decimal precision form
        for fmt, reps in ((3, 3), (4, 3), (3, None)):
            J.append(("job_query", dict(mode=mode, what="valid", fmt=fmt, reps=reps, iv="P1D", window=(-2, 4), ranges={"DOY": (360, 361)}, a24=True)))
            J.append(("job_query", dict(mode=mode, what="valid", fmt=fmt, reps=reps, iv="PT36H", window=(-3, 6), ranges={"DOY": (100, 101)}, a24=True, samezone=False)))
            for pdec in (("hdec", 0.5), ("mdec", 0.25)):
                J.append(("job_query", dict(mode=mode, what="valid", fmt=fmt, reps=reps, iv="P1D", window=(-2, 4), ranges={"DOY": (360, 361), "mi": (30, 30) if pdec[0] == "hdec" else (0, 59), "se": (0, 15)}, pdec=pdec)))
                J.append(("job_query", dict(mode=mode, what="valid", fmt=fmt, reps=reps, iv="PT90M", window=(-1, 1), ranges={"DOY": (100, 101), "h": (22, 23), "hp": (21, 23), "se": (0, 15)}, pdec=pdec, samezone=False)))
        J.append(("job_query", dict(mode=mode, what="first_after", fmt=3, reps=3, iv="P1D", window=(-2, 4), ranges={"DOY": (360, 361)}, a24=True)))
        # probes written in another zone / representation
        for what in ("valid", "first_after"):
            J.append(("job_query", dict(mode=mode, what=what, fmt=3, reps=3, iv="PT36H", samezone=False, ranges={"DOY": (100, 100)})))
            J.append(("job_query", dict(mode=mode, what=what, fmt=3, reps=3, iv="P1D", prep="cal",
                                        ranges={"DOY": (59, 60), "Mp": (2, 3), "Dp": (27, 31)})))
            J.append(("job_query", dict(mode=mode, what=what, fmt=3, reps=3, iv="P1W", prep="week", samezone=False,
                                        ranges={"DOY": (360, 361), "Wp": (51, 53), "K": (5, 5), "c": (0, 0), "q": (1, 1), "s": (0, 0)})))
        for iv in ("PT90M", "PT36H", "P1D", "P1W"):
            for fmt, repss in ((3, (1, 2, 3, None)), (1, (3,)), (4, (2, 3, None))):
                for reps in repss:
                    for a in A:
                        J.append(("job_neighbours", dict(mode=mode, fmt=fmt, reps=reps, iv=iv, ranges=a)))
        for iv in NOMINAL:
            for fmt, reps in ((3, 3), (3, None), (4, None)):
                J.append(("job_neighbours", dict(mode=mode, fmt=fmt, reps=reps, iv=iv, nominal=True, ranges={"M": (1, 12), "D": (1, 28)})))
            # anchors on days that do not exist in every month / year, followed for 6 points
            for fmt in (3, 4):
                J.append(("job_neighbours", dict(mode=mode, fmt=fmt, reps=None, iv=iv, nominal=True, k=6,
                                                 ranges={"M": (1, 3), "D": (28, 31)})))
                J.append(("job_neighbours", dict(mode=mode, fmt=fmt, reps=None, iv=iv, nominal=True, k=6, rep="ord",
                                                 ranges={"DOY": (lastd - 1, lastd)})))
                for res in (104, 399, 4):
                    J.append(("job_neighbours", dict(mode=mode, fmt=fmt, reps=None, iv=iv, nominal=True, k=7, rep="week",
                                                     ranges={"W": (52, 53)}, pins=C.residue_pins(res))))
    for mode in C.MODES4:
        for iv in NOMINAL:
            for reps in (None, 3):
                for m, dw in (((1, 3), (28, 31)), ((1, 3), (1, 2)), ((10, 12), (29, 31))) if mode == "gregorian" or th else (((1, 2), (28, 31)),):
                    J.append(("job_first_after_nominal", dict(mode=mode, iv=iv, reps=reps, ranges={"M": m, "D": dw, "tzh": (0, 0), "tzm": (0, 0)})))
                    if reps is None and (th or dw == (28, 31)):
                        J.append(("job_first_after_nominal", dict(mode=mode, iv=iv, reps=None, fmt=4, ranges={"M": m, "D": dw, "tzh": (0, 0), "tzm": (0, 0)})))
    return J


def job_weight(fn, kw):
    return 30 if kw.get("prep") in ("cal", "week") or kw.get("samezone") is False else 10


INFO = {
    "explanation": "C13: recurrences with a concrete exact interval (PT1S, PT90M, PT1H, PT36H, P1D, P1W, P10D), a symbolic ordinal "
                   "anchor and 1-3 repetitions or unbounded, in the three notations; a symbolic probe near the series. "
                   "get_is_valid(p) <=> p's instant is a member's instant; get_first_after(p) is the earliest member strictly "
                   "later than p (first member if p precedes, None if none); r[i] is the i-th iterated point; get_next/get_prev "
                   "of a member is the adjacent member (None at the ends; month/year intervals: in the direction of iteration).",
    "bounds": {"quick": {"anchors": "ordinal days 100-101 (and 360-361 for PT36H, P1D), any year, whole-hour offsets +-3, any time (sub-hour intervals: last hours of the day)",
                         "probes": "same year and zone as the anchor, day offset window around the series, any whole-second time; plus one job each with the probe in another whole-hour zone, in calendar and in week representation; get_is_valid also with the anchor written as 24:00 (P1D, PT36H) and with the probe in the hh,5 / hh:mm,25 decimal forms (P1D, PT90M)",
                         "repetitions": "start/duration 1,2,3,unbounded; start/second 3; duration/end 3 and unbounded", "mode": "gregorian"},
               "thorough": {"modes": "all 4", "anchors": "both windows for every interval"}},
    "outside": ["symbolic interval lengths", "get_first_after with month/year intervals other than P1M / P1Y or probes more than 5 months (P1M) / 3 years (P1Y) away from the anchor (start/duration series forwards, unbounded duration/end series backwards)", "fractional-second probes",
                "probes more than the stated window away from the series"],
    "assumptions": ["get_days_in_year_range runs as its closed form (C03)"],
}
REQUIRED_SCENARIOS = {"all": ["anchor written as 24:00, probe on a member", "probe in a decimal precision form, on a member", "first_after nominal", "probe before the nominal series", "query:valid", "query:first_after", "probe before the series", "probe on a member",
                              "probe between members", "probe on the last member", "probe after the series",
                              "neighbours", "neighbours nominal"]}
