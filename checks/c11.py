"""C11 -- Duration arithmetic, equality, ordering and hashing are coherent.

Real code: Duration.__init__/__add__/__sub__/__mul__/__rmul__/__abs__/__eq__/
__hash__/__lt__/__le__/__gt__/__ge__/__bool__/to_days/get_seconds/
get_days_and_seconds/is_exact (metomi/isodatetime/data.py).
"""
import z3

import refmodel as R
from symx import core
from symx.core import lift, conc, hashkey_eq
from symx.harness import sym_run
from . import common as C

PROPERTY = "C11"
L = lift
UNITS = ("years", "months", "days", "hours", "minutes", "seconds")
BIG = 10 ** 9


def dur_input(e, data, tag, form, floats=False, lim=BIG):
    """form: 'weeks' -> Duration(weeks=w);  'units' -> the six unit fields;
    'exact' -> days/hours/minutes/seconds only; 'mixw' -> weeks + days"""
    if form == "weeks":
        kw = {"weeks": e.var("w" + tag, -lim, lim)}
    elif form == "mixw":
        kw = {"weeks": e.var("w" + tag, -lim, lim), "days": e.var("days" + tag, -lim, lim)}
    else:
        names = UNITS if form == "units" else UNITS[2:]
        kw = {u: e.var(u + tag, -lim, lim) for u in names}
        if floats:
            for u in ("hours", "minutes", "seconds"):
                kw[u] = core.FLOAT(kw[u])
    return kw


def dur_case(v, tag, form):
    if form == "weeks":
        return {"weeks": v["w" + tag]}
    if form == "mixw":
        return {"weeks": v["w" + tag], "days": v["days" + tag]}
    names = UNITS if form == "units" else UNITS[2:]
    return {u: v[u + tag] for u in names}


def comps(d):
    """(years, months, exact seconds) of a Duration object, as numbers"""
    if d._weeks is not None:
        return 0, 0, d._weeks * 7 * 86400
    return (d._years, d._months,
            d._days * 86400 + d._hours * 3600 + d._minutes * 60 + d._seconds)


def z_comps(d):
    y, m, s = comps(d)
    return L(y), L(m), L(s)


def z_exact(d):
    y, m, _ = z_comps(d)
    return z3.And(y == 0, m == 0)


def z_oracle_eq(a, b):
    ya, ma, sa = z_comps(a)
    yb, mb, sb = z_comps(b)
    ea, eb = z3.And(ya == 0, ma == 0), z3.And(yb == 0, mb == 0)
    return z3.If(ea, z3.And(eb, sa == sb), z3.And(ya == yb, ma == mb, sa == sb))


def z_rough(mode, d):
    y, m, s = z_comps(d)
    return (y * R.diy_const(mode) + m * 30) * 86400 + s


def z_same(a, b):
    """component-wise identity (years, months, exact seconds)"""
    ya, ma, sa = z_comps(a)
    yb, mb, sb = z_comps(b)
    return z3.And(ya == yb, ma == mb, sa == sb)


def well_formed(d):
    """representation invariant: weeks form has every other slot None, unit
    form has weeks None and numeric slots"""
    if d._weeks is not None:
        return all(getattr(d, "_" + u) is None for u in UNITS) and C.is_int_typed(d._weeks)
    return C.is_int_typed(*[getattr(d, "_" + u) for u in UNITS])


def job_algebra(ctx, mode, fa, fb, fc=None, floats=False, which="pair"):
    data = ctx.data
    C.set_mode(data, mode)
    D = data.Duration

    def make(e):
        i = {"a": dur_input(e, data, "a", fa, floats), "b": dur_input(e, data, "b", fb, floats)}
        if fc:
            i["c"] = dur_input(e, data, "c", fc, floats, lim=10 ** 6)
        return i

    def body(i):
        a, b = D(**i["a"]), D(**i["b"])
        o = {"a": a, "b": b}
        if which == "pair":
            o["ab"], o["ba"] = a + b, b + a
            o["a0"], o["0a"] = a + D(), D() + a
            o["inv"] = a + (-1 * a)
            o["inv_empty"] = not bool(o["inv"])
            o["inv_eq0"] = (o["inv"] == D())
            o["inv_hash"], o["zero_hash"] = o["inv"].__hash__(), D().__hash__()
            o["sub"], o["addneg"] = a - b, a + (-1 * b)
            o["rmul"], o["mul"] = 3 * a, a * 3
            o["comm_eq"] = (o["ab"] == o["ba"])
        elif which == "assoc":
            c = D(**i["c"])
            o["c"] = c
            o["l"], o["r"] = (a + b) + c, a + (b + c)
            o["eq"] = (o["l"] == o["r"])
        return o

    def post(i, out):
        if out[0] != "ok":
            return [("no exception", False)]
        o = out[1]
        a, b = o["a"], o["b"]
        obs = []
        if which == "pair":
            for k in ("ab", "ba", "a0", "0a", "inv", "sub", "addneg", "rmul", "mul"):
                obs.append(("%s well formed" % k, well_formed(o[k])))
            ya, ma, sa = z_comps(a)
            yb, mb, sb = z_comps(b)
            yab, mab, sab = z_comps(o["ab"])
            obs += [("a + b adds component-wise", z3.And(yab == ya + yb, mab == ma + mb, sab == sa + sb)),
                    ("a + b == b + a (components)", z_same(o["ab"], o["ba"])),
                    ("a + b == b + a (real ==)", bool(o["comm_eq"])),
                    ("a + P0 is a", z_same(o["a0"], a)), ("P0 + a is a", z_same(o["0a"], a)),
                    ("a + (-1*a) is empty (bool)", bool(o["inv_empty"])),
                    ("a + (-1*a) == Duration()", bool(o["inv_eq0"])),
                    ("a + (-1*a) hashes like Duration() (equal values, equal hash keys)", hashkey_eq(o["inv_hash"], o["zero_hash"])),
                    ("a - b == a + (-1*b)", z_same(o["sub"], o["addneg"])),
                    ("3*a == a*3", z_same(o["rmul"], o["mul"]))]
            y3, m3, s3 = z_comps(o["mul"])
            obs.append(("3*a is a+a+a", z3.And(y3 == 3 * ya, m3 == 3 * ma, s3 == 3 * sa)))
        else:
            obs += [("(a+b)+c == a+(b+c) (components)", z_same(o["l"], o["r"])),
                    ("(a+b)+c == a+(b+c) (real ==)", bool(o["eq"]))]
        return obs

    def case_of(v, i):
        c = {"check": "algebra", "which": which, "mode": mode, "floats": floats,
             "a": dur_case(v, "a", fa), "b": dur_case(v, "b", fb)}
        if fc:
            c["c"] = dur_case(v, "c", fc)
        return c

    return sym_run("algebra[%s,%s,%s,%s,%s%s]" % (which, mode, fa, fb, fc, ",float" if floats else ""),
                   make, None, body, post, case_of,
                   scenarios=lambda i: {"mixed signs": any(conc(x) < 0 for x in i["a"].values()) and any(conc(x) > 0 for x in i["a"].values())},
                   # asked of the solver on each path, so that the witness does not depend on which model z3 happens to pick
                   scenarios_z3=lambda i: {"mixed signs": z3.And(z3.Or([L(x) < 0 for x in i["a"].values()]),
                                                                 z3.Or([L(x) > 0 for x in i["a"].values()]))},
                   bounds={"components": "|x| <= 1e9 (c: 1e6)", "forms": [fa, fb, fc]}, sample_every=50)


def job_compare(ctx, mode, fa, fb, op, floats=False):
    """one relational operator per run (several in one harness multiply paths)"""
    data = ctx.data
    C.set_mode(data, mode)
    D = data.Duration
    import operator
    fn = {"eq": operator.eq, "ne": operator.ne, "lt": operator.lt, "le": operator.le,
          "gt": operator.gt, "ge": operator.ge, "hash": None}[op]

    def make(e):
        return {"a": dur_input(e, data, "a", fa, floats), "b": dur_input(e, data, "b", fb, floats)}

    def body(i):
        a, b = D(**i["a"]), D(**i["b"])
        if op == "hash":
            return a, b, (a == b), a.__hash__(), b.__hash__()
        return a, b, fn(a, b)

    def post(i, out):
        if out[0] != "ok":
            return [("no exception", False)]
        a, b, res = out[1][:3]
        res = bool(res)
        if op in ("eq", "ne"):
            exp = z_oracle_eq(a, b)
            if op == "ne":
                exp = z3.Not(exp)
            return [("%s agrees with the definition" % op, z3.BoolVal(res) == exp)]
        if op == "hash":
            ha, hb = out[1][3], out[1][4]
            if not res:
                return [("(unequal: nothing to show)", True)]
            if not isinstance(ha, core.HashKey) or not isinstance(hb, core.HashKey):
                return [("hash keys", ha == hb)]
            return [("equal durations have equal hash keys", hashkey_eq(ha, hb))]
        ra, rb = z_rough(mode, a), z_rough(mode, b)
        exp = {"lt": ra < rb, "le": ra <= rb, "gt": ra > rb, "ge": ra >= rb}[op]
        return [("%s is the order of rough lengths (year=%d days, month=30 days)" % (op, R.diy_const(mode)),
                 z3.BoolVal(res) == exp)]

    def case_of(v, i):
        return {"check": "compare", "op": op, "mode": mode, "floats": floats,
                "a": dur_case(v, "a", fa), "b": dur_case(v, "b", fb)}

    return sym_run("compare[%s,%s,%s,%s%s]" % (op, mode, fa, fb, ",float" if floats else ""),
                   make, None, body, post, case_of,
                   scenarios=lambda i: {"compare:" + op: True},
                   bounds={"components": "|x| <= 1e9", "forms": [fa, fb]}, sample_every=50)


def job_mul(ctx, mode, form, n):
    """n * d equals n-fold addition (n concrete; d symbolic)"""
    data = ctx.data
    C.set_mode(data, mode)
    D = data.Duration

    def make(e):
        return {"a": dur_input(e, data, "a", form, lim=10 ** 6)}

    def body(i):
        a = D(**i["a"])
        acc = D()
        for _ in range(abs(n)):
            acc = acc + a if n > 0 else acc - a
        return a, n * a, a * n, acc, (n * a == acc)

    def post(i, out):
        if out[0] != "ok":
            return [("no exception", False)]
        a, na, an, acc, eq = out[1]
        return [("n*d == n-fold sum (components)", z_same(na, acc)), ("d*n == n*d", z_same(na, an)),
                ("n*d == n-fold sum (real ==)", bool(eq)), ("well formed", well_formed(na))]

    return sym_run("mul[%s,%s,n=%d]" % (mode, form, n), make, None, body, post,
                   lambda v, i: {"check": "mul", "mode": mode, "n": n, "a": dur_case(v, "a", form)},
                   bounds={"components": "|x| <= 1e6", "n": n})


def job_mul_symn(ctx, mode):
    """symbolic multiplier, concrete durations"""
    data = ctx.data
    C.set_mode(data, mode)
    D = data.Duration
    DURS = [dict(weeks=2), dict(days=1, hours=2, minutes=3, seconds=4), dict(years=1, months=2, days=3),
            dict(hours=-5, seconds=7), dict(years=-1, days=400)]

    def make(e):
        return {"n": e.var("n", -10 ** 6, 10 ** 6)}

    def body(i):
        return [(D(**kw), i["n"] * D(**kw), D(**kw) * i["n"]) for kw in DURS]

    def post(i, out):
        if out[0] != "ok":
            return [("no exception", False)]
        obs = []
        n = L(i["n"])
        for d, nd, dn in out[1]:
            y, m, s = z_comps(d)
            yn, mn, sn = z_comps(nd)
            obs.append(("n*d scales every component", z3.And(yn == n * y, mn == n * m, sn == n * s)))
            obs.append(("d*n == n*d", z_same(nd, dn)))
        return obs

    return sym_run("mul_symn[%s]" % mode, make, None, body, post,
                   lambda v, i: {"check": "mul_symn", "mode": mode, "n": v["n"], "durs": DURS},
                   bounds={"n": "|n| <= 1e6", "durations": DURS})


# ---------------------------------------------------------------------------
def _py_comps(d):
    if d._weeks is not None:
        return 0, 0, d._weeks * 7 * 86400
    return d._years, d._months, d._days * 86400 + d._hours * 3600 + d._minutes * 60 + d._seconds


def replay(case, M):
    data = M.data
    mode = case["mode"]
    data.CALENDAR.set_mode(mode)
    try:
        return _replay(case, data, mode)
    finally:
        data.CALENDAR.set_mode("gregorian")


def _mk(data, kw, floats):
    kw = dict(kw)
    if floats:
        for u in ("hours", "minutes", "seconds"):
            if u in kw:
                kw[u] = float(kw[u])
    return data.Duration(**kw)


def _replay(case, data, mode):
    D = data.Duration
    fl = case.get("floats", False)
    k = case["check"]
    if k == "algebra":
        a, b = _mk(data, case["a"], fl), _mk(data, case["b"], fl)
        ca, cb = _py_comps(a), _py_comps(b)
        if case["which"] == "assoc":
            c = _mk(data, case["c"], fl)
            l, r = (a + b) + c, a + (b + c)
            bad = _py_comps(l) != _py_comps(r) or not (l == r)
            return bad, "(a+b)+c = %s, a+(b+c) = %s for a=%s b=%s c=%s" % (l, r, a, b, c)
        checks = [
            ("a+b component-wise", _py_comps(a + b) == tuple(x + y for x, y in zip(ca, cb))),
            ("a+b == b+a", _py_comps(a + b) == _py_comps(b + a) and (a + b) == (b + a)),
            ("identity", _py_comps(a + D()) == ca and _py_comps(D() + a) == ca),
            ("inverse empty", (not bool(a + (-1 * a))) and (a + (-1 * a)) == D()),
            ("inverse hashes like the empty duration", hash(a + (-1 * a)) == hash(D())),
            ("a-b == a+(-1*b)", _py_comps(a - b) == _py_comps(a + (-1 * b))),
            ("3*a", _py_comps(3 * a) == tuple(3 * x for x in ca) and _py_comps(a * 3) == _py_comps(3 * a)),
        ]
        bad = [n for n, ok in checks if not ok]
        return bool(bad), "a=%s b=%s fails: %s" % (a, b, bad)
    if k == "compare":
        a, b = _mk(data, case["a"], fl), _mk(data, case["b"], fl)
        ca, cb = _py_comps(a), _py_comps(b)
        exa, exb = ca[:2] == (0, 0), cb[:2] == (0, 0)
        eq = (exb and ca[2] == cb[2]) if exa else (ca == cb)
        rough = lambda c: (c[0] * R.diy_const(mode) + c[1] * 30) * 86400 + c[2]
        op = case["op"]
        import operator
        if op == "hash":
            bad = (a == b) and hash(a) != hash(b)
            return bad, "a=%s b=%s equal but hash %s vs %s" % (a, b, hash(a), hash(b))
        got = getattr(operator, op)(a, b)
        exp = {"eq": eq, "ne": not eq, "lt": rough(ca) < rough(cb), "le": rough(ca) <= rough(cb),
               "gt": rough(ca) > rough(cb), "ge": rough(ca) >= rough(cb)}[op]
        return bool(got) != bool(exp), "%s %s %s = %s, expected %s" % (a, op, b, got, exp)
    if k == "mul":
        a, n = _mk(data, case["a"], False), case["n"]
        acc = D()
        for _ in range(abs(n)):
            acc = acc + a if n > 0 else acc - a
        bad = _py_comps(n * a) != _py_comps(acc) or _py_comps(a * n) != _py_comps(acc) or not (n * a == acc)
        return bad, "%d * %s = %s, n-fold sum %s" % (n, a, n * a, acc)
    if k == "mul_symn":
        n = case["n"]
        for kw in case["durs"]:
            d = D(**kw)
            if _py_comps(n * d) != tuple(n * x for x in _py_comps(d)) or _py_comps(d * n) != _py_comps(n * d):
                return True, "%d * %s = %s" % (n, d, n * d)
        return False, "ok"
    raise KeyError(k)


def jobs(tier):
    J = []
    th = tier == "thorough"
    forms = ["weeks", "units", "mixw"]
    modes = C.MODES4 if th else ["gregorian", "360day"]
    for fa in forms:
        for fb in forms:
            J.append(("job_algebra", dict(mode="gregorian", fa=fa, fb=fb)))
    J.append(("job_algebra", dict(mode="gregorian", fa="units", fb="units", floats=True)))
    for fa, fb, fc in (("units", "units", "units"), ("weeks", "units", "weeks"), ("weeks", "weeks", "units"),
                       ("units", "weeks", "weeks"), ("weeks", "weeks", "weeks"), ("exact", "mixw", "weeks")):
        J.append(("job_algebra", dict(mode="gregorian", fa=fa, fb=fb, fc=fc, which="assoc")))
    for mode in modes:
        for op in ("eq", "ne", "lt", "le", "gt", "ge", "hash"):
            pairs = (("units", "units"), ("weeks", "units"), ("units", "weeks"), ("weeks", "weeks"),
                     ("exact", "weeks"), ("mixw", "exact"))
            if th:
                allf = ("units", "weeks", "exact", "mixw")
                pairs = [(x, y) for x in allf for y in allf]
            for fa, fb in pairs:
                if mode != "gregorian" and op in ("eq", "ne", "hash") and not th:
                    continue
                J.append(("job_compare", dict(mode=mode, fa=fa, fb=fb, op=op)))
        J.append(("job_compare", dict(mode=mode, fa="units", fb="units", op="lt", floats=True)))
        J.append(("job_compare", dict(mode=mode, fa="units", fb="exact", op="eq", floats=True)))
        J.append(("job_compare", dict(mode=mode, fa="units", fb="exact", op="hash", floats=True)))
    for n in ((-4, -1, 0, 1, 2, 6) if not th else range(-12, 13)):
        for form in ("units", "weeks"):
            J.append(("job_mul", dict(mode="gregorian", form=form, n=n)))
    J.append(("job_mul_symn", dict(mode="gregorian")))
    return J


INFO = {
    "explanation": "C11: Durations built by the real constructor from symbolic integer components (week form, unit form, "
                   "weeks+days; int- and float-typed time units; mixed signs) are combined by the real operators; per path "
                   "z3 shows component-wise addition, commutativity, associativity, identity, inverse, n*d = n-fold sum, "
                   "a-b = a+(-1*b); == / != equal the definition (exact: total length; nominal: years, months, exact "
                   "seconds), equal => equal hash keys, and < <= > >= equal the order of rough lengths in the active mode.",
    "bounds": {"quick": {"components": "|x| <= 1e9 (third operand and multiplied durations: 1e6)", "multipliers": "n in {-4,-1,0,1,2,6} with symbolic d; symbolic n (|n|<=1e6) with 5 concrete durations",
                         "modes": "ordering under gregorian and 360day"},
               "thorough": {"modes": "all 4", "multipliers": "-12..12", "comparison operand forms": "all 16 pairs of units / weeks / exact / weeks-mixed"}},
    "outside": ["decimal (non-integral) components: the 'within float tolerance' clause is floating point and not decided here",
                "TimeZone (excluded by the property)", "__floordiv__"],
    "assumptions": ["hash(): the shim returns the tuple the real __hash__ builds; equal tuples of equal numbers have equal CPython hashes"],
}
REQUIRED_SCENARIOS = {"all": ["mixed signs", "compare:eq", "compare:lt", "compare:hash"]}
