"""C08 -- writing a time point out and reading it back is lossless.

Real code: TimePoint.__str__/_get_dump_format/_decimal_string, TimePointDumper.
dump/_get_expression_and_properties/_dump_expression_with_properties (its
regex substitutions run on the format string, which embeds the point's own year
digits), then TimePointParser.parse -> get_info/get_date_info/get_time_info/
get_time_zone_info/process_time_zone_info/_create_timepoint_from_info and the
TimePoint constructor, all on strings with symbolic digits.
"""
import z3

import refmodel as R
from symx import core, strs
from symx.core import lift, conc, SymInt
from symx.harness import sym_run
from symx.strs import SymStr, z3_str_eq
from . import common as C
from .c03 import install_range_summary, install_weeks_summary

PROPERTY = "C08"
L = lift
NEEDS_STRING_VALIDATION = True


def dec_year(e, tag, ndig, signed):
    """year from decimal digit variables (so that %-formatting and int() of the
    text stay linear): value, z3-friendly"""
    v = 0
    for k in range(ndig):
        v = v * 10 + e.var("y%s%d" % (tag, k), 0, 9)
    if signed:
        sg = e.var("ysg" + tag, 0, 1)
        return v - 2 * sg * 0 if False else (v, sg)
    return v, 0


def year_of_case(vals, tag, ndig, signed):
    v = 0
    for k in range(ndig):
        v = v * 10 + vals["y%s%d" % (tag, k)]
    if signed and vals.get("ysg" + tag):
        v = -v
    return v


def sym_point(e, data, rep, ned, neg, tod, tz="sym"):
    ndig = 4 + ned
    y = 0
    for k in range(ndig):
        y = y * 10 + e.var("y%d" % k, 0, 9)
    if neg:
        y = -y
    if rep == "cal":
        f1, f2 = e.var("M", 1, 12), e.var("D", 1, 31)
    elif rep == "ord":
        f1, f2 = e.var("DOY", 1, 366), None
    else:
        f1, f2 = e.var("W", 1, 53), e.var("WD", 1, 7)
    if tod == "sym":
        h, mi, s = e.var("h", 0, 24), e.var("mi", 0, 59), e.var("se", 0, 59)
    else:
        # a decimal component is what the constructor / parser build: integer part + float("0.<digits>")
        h, mi, s = [_as_built(x) for x in tod]
    if tz == "sym":
        zh, zm = e.var("tzh", -99, 99), e.var("tzm", -59, 59)
    else:
        zh, zm = tz
    return C.raw_point(data, y, rep, f1, f2, h, mi, s, zh, zm, ned=ned)


def _as_built(x):
    if isinstance(x, float) and x != int(x):
        ip, frac = ("%.6f" % x).split(".")
        return int(ip) + float("0." + (frac.rstrip("0") or "0"))
    return x


def case_point(v, rep, ned, neg, tod, tz):
    ndig = 4 + ned
    y = 0
    for k in range(ndig):
        y = y * 10 + v["y%d" % k]
    kw = {"year": -y if neg else y}
    if rep == "cal":
        kw["month_of_year"], kw["day_of_month"] = v["M"], v["D"]
    elif rep == "ord":
        kw["day_of_year"] = v["DOY"]
    else:
        kw["week_of_year"], kw["day_of_week"] = v["W"], v["WD"]
    if tod == "sym":
        kw["hour_of_day"], kw["minute_of_hour"], kw["second_of_minute"] = v["h"], v["mi"], v["se"]
    else:
        kw["tod"] = list(tod)
    if tz == "sym":
        kw["time_zone_hour"], kw["time_zone_minute"] = v["tzh"], v["tzm"]
    else:
        kw["time_zone_hour"], kw["time_zone_minute"] = tz
    return kw


def fields_equal(p, q):
    """z3 / bool: q carries exactly p's representation, fields and zone"""
    cs = []
    for sl in ("_year", "_month_of_year", "_day_of_month", "_day_of_year", "_week_of_year", "_day_of_week",
               "_hour_of_day", "_minute_of_hour", "_second_of_minute"):
        x, y = getattr(p, sl), getattr(q, sl)
        if x is None or y is None:
            if x is not y:
                return False
            continue
        if isinstance(x, float) and x != int(x) or isinstance(y, float) and y != int(y):
            if type(x) is SymInt or type(y) is SymInt or x != y:
                return False
            continue
        cs.append(L(x) == L(y))
    cs.append(L(p._time_zone._hours) == L(q._time_zone._hours))
    cs.append(L(p._time_zone._minutes) == L(q._time_zone._minutes))
    if q._time_zone._unknown or q._truncated:
        return False
    return z3.And(cs)


def job_str(ctx, mode, rep, ned=0, neg=False, tod="sym", ranges=None, tz="sym"):
    data, parsers = ctx.data, ctx.parsers
    C.set_mode(data, mode)
    install_range_summary(data, mode)
    install_weeks_summary(data, mode)
    PARSER = parsers.TimePointParser(num_expanded_year_digits=ned or 2)

    def make(e):
        return {"p": sym_point(e, data, rep, ned, neg, tod, tz)}

    def pre(i):
        p = i["p"]
        tz_ = p._time_zone
        cs = [core.zbool(C.m_valid_date(mode, rep, C.fields_of(p, rep)))[0],
              core.zbool(R.valid_tz(C.M, tz_._hours, tz_._minutes))[0]]
        if tod == "sym":
            cs.append(core.zbool(R.valid_time(C.M, p._hour_of_day, p._minute_of_hour, p._second_of_minute, allow24=True))[0])
        return z3.And(cs)

    def body(i):
        p = i["p"]
        s = data.TimePoint.__str__(p)
        q = PARSER.parse(s)
        s2 = data.TimePoint.__str__(q)
        return s, q, s2, (q == p) if tod == "sym" else None

    def post(i, out):
        if out[0] != "ok":
            return [("str(p) parses back without error", False)]
        p = i["p"]
        s, q, s2, eq = out[1]
        obs = [("same representation, field values and UTC offset", fields_equal(p, q)),
               ("str is a fixpoint", z3_str_eq(s, s2))]
        if eq is not None:
            obs.append(("parse(str(p)) == p", bool(eq)))
        return obs

    def case_of(v, i):
        return {"check": "str", "mode": mode, "rep": rep, "ned": ned, "p": case_point(v, rep, ned, neg, tod, tz)}

    def zsc(i):
        p = i["p"]
        d = {}
        if tod == "sym":
            d["24:00 time"] = L(p._hour_of_day) == 24
        if tz == "sym":
            d["UTC (Z) zone"] = z3.And(L(p._time_zone._hours) == 0, L(p._time_zone._minutes) == 0)
            d["zone -00:mm"] = z3.And(L(p._time_zone._hours) == 0, L(p._time_zone._minutes) < 0)
        d["year with leading zeros"] = L(p._year) * (1 if not neg else -1) < 100
        return d

    return sym_run("str[%s,%s,ned=%d%s,tod=%s,tz=%s,%s]" % (mode, rep, ned, ",neg" if neg else "", tod, tz, ranges),
                   make, pre, body, post, case_of, scenarios_z3=zsc, ranges=ranges,
                   scenarios=lambda i: {"expanded year": ned > 0, "negative year": neg, "decimal time form": tod != "sym",
                                        "rep:" + rep: True},
                   bounds={"year digits": 4 + ned, "negative": neg, "time": "00:00:00..24:00:00 symbolic" if tod == "sym" else list(tod),
                           "offsets": "-99:59..+99:59" if tz == "sym" else list(tz)}, sample_every=200)


FORMATS = ["CCYY-MM-DDThh:mm:ssZ", "CCYYMMDDThhmmssZ", "CCYY-MM-DDThh:mm:ss+hh:mm", "CCYYMMDDThhmmss+hhmm",
           "CCYY-DDDThh:mm:ss+hh:mm", "CCYYDDDThhmmssZ", "CCYY-Www-DThh:mm:ss+hh:mm", "CCYYWwwDThhmmss+hh",
           "CCYY-MM-DDThh:mm:ss+05:30", "CCYYMMDDThhmmss-0330", "CCYY-DDDThh:mm:ss-00:30", "CCYY-Www-DThh:mm:ss+14",
           "+XCCYY-MM-DDThh:mm:ss+hh:mm", "+XCCYYDDDThhmmssZ"]


def job_format(ctx, mode, rep, fmt, ranges=None):
    """a complete custom dump format parses back to the same instant"""
    data, parsers, dumpers = ctx.data, ctx.parsers, ctx.dumpers
    C.set_mode(data, mode)
    install_range_summary(data, mode)
    install_weeks_summary(data, mode)
    ned = 2 if "X" in fmt else 0
    PARSER = parsers.TimePointParser(num_expanded_year_digits=2)
    DUMPER = dumpers.TimePointDumper(num_expanded_year_digits=2)
    hour_only_zone = fmt.endswith("+hh")

    def make(e):
        p = sym_point(e, data, rep, ned, False, "sym", "sym")
        if hour_only_zone:
            p._time_zone._minutes = 0
        return {"p": p}

    def pre(i):
        p = i["p"]
        return z3.And(C.m_valid_point(mode, p, rep, True))

    literal_zone = fmt.endswith("Z") or any(ch.isdigit() for ch in fmt)

    def body(i):
        p = i["p"]
        s = DUMPER.dump(p, fmt)
        q = PARSER.parse(s)
        # the real == as well where it is cheap (no zone conversion inside the dump)
        return s, q, ((q == p), (p == q)) if not literal_zone else None

    def post(i, out):
        if out[0] != "ok":
            return [("dump with a complete format parses back", False)]
        p = i["p"]
        s, q, eqs = out[1]
        qr = C.rep_of(q)
        if qr is None:
            return [("full date", False)]
        obs = [("parses back to the same instant", L(C.m_instant(mode, q, qr)) == L(C.m_instant(mode, p, rep))),
               ("valid point", C.m_valid_point(mode, q, qr, True))]
        if eqs is not None:
            obs.append(("parsed == original, both ways (real ==)", bool(eqs[0]) and bool(eqs[1])))
        return obs

    def case_of(v, i):
        kw = case_point(v, rep, ned, False, "sym", "sym")
        if hour_only_zone:
            kw["time_zone_minute"] = 0
        return {"check": "format", "mode": mode, "fmt": fmt, "p": kw, "ned": ned}

    return sym_run("format[%s,%s,%s,%s]" % (mode, rep, fmt, ranges), make, pre, body, post, case_of, ranges=ranges,
                   scenarios=lambda i: {"custom format": True, "literal zone in format": any(ch.isdigit() for ch in fmt) or fmt.endswith("Z")},
                   bounds={"format": fmt, "year digits": 4 + ned}, sample_every=200)


DECIMAL_TODS = [(6.5, None, None), (23.999, None, None), (0.000001, None, None), (12, 30.25, None), (23, 59.5, None),
                (0, 0.000001, None), (7, 8, 9.5), (23, 59, 59.999999), (0, 0, 0.25), (12, 0, 30.123456),
                # around the dumper's six-digit rounding / truncation thresholds
                (7, 8, 9.999994), (7, 8, 9.999995), (7, 8, 9.999996), (7, 8, 9.999997), (7, 8, 9.999998),
                (7, 8.999996, None), (6.999997, None, None), (1, 2, 3.000001), (1, 2.000004, None),
                (23, 59, 59.000005), (0, 0, 0.999998)]


# ---------------------------------------------------------------------------
def replay(case, M):
    data, parsers, dumpers = M.data, M.parsers, M.dumpers
    mode = case["mode"]
    data.CALENDAR.set_mode(mode)
    try:
        kw = dict(case["p"])
        tod = kw.pop("tod", None)
        if tod is not None:
            h, mi, s = tod
            frac = lambda x: float("0." + (("%.6f" % x).split(".")[1].rstrip("0") or "0"))
            if mi is None:
                kw["hour_of_day"], kw["hour_of_day_decimal"] = int(h), frac(h)
            elif s is None:
                kw["hour_of_day"], kw["minute_of_hour"], kw["minute_of_hour_decimal"] = h, int(mi), frac(mi)
            else:
                kw["hour_of_day"], kw["minute_of_hour"], kw["second_of_minute"] = h, mi, int(s)
                if s != int(s):
                    kw["second_of_minute_decimal"] = frac(s)
        try:
            p = data.TimePoint(num_expanded_year_digits=case["ned"], **kw)
        except ValueError as exc:
            return False, "input not constructible (precondition): %s" % exc
        P = parsers.TimePointParser(num_expanded_year_digits=case["ned"] or 2)
        if case["check"] == "format":
            P = parsers.TimePointParser(num_expanded_year_digits=2)
            try:
                s = dumpers.TimePointDumper(num_expanded_year_digits=2).dump(p, case["fmt"])
            except Exception as exc:
                return True, "dump(%s, %r) raised %s: %s" % (p, case["fmt"], type(exc).__name__, exc)
            try:
                q = P.parse(s)
            except Exception as exc:
                return True, "dump(%s, %r) = %r does not parse back: %s" % (p, case["fmt"], s, exc)
            bad = C.py_instant(mode, q) != C.py_instant(mode, p) or not (q == p) or not (p == q)
            return bad, "dump(%s, %r) = %r parses back to %s (== original: %s / %s)" % (p, case["fmt"], s, q, q == p, p == q)
        s = str(p)
        try:
            q = P.parse(s)
        except Exception as exc:
            return True, "str(p) = %r does not parse back: %s: %s" % (s, type(exc).__name__, exc)
        same = all(getattr(p, sl) == getattr(q, sl) for sl in (
            "_year", "_month_of_year", "_day_of_month", "_day_of_year", "_week_of_year", "_day_of_week"))
        same = same and (q._time_zone._hours, q._time_zone._minutes) == (p._time_zone._hours, p._time_zone._minutes)
        for sl in ("_hour_of_day", "_minute_of_hour", "_second_of_minute"):
            x, y = getattr(p, sl), getattr(q, sl)
            if (x is None) != (y is None) or (x is not None and x != y):
                same = False
        bad = not same or str(q) != s or (tod is None and not (q == p))
        return bad, "str(p) = %r parses back to %s (fields equal: %s, str again %r)" % (s, q, same, str(q))
    finally:
        data.CALENDAR.set_mode("gregorian")


def jobs(tier):
    th = tier == "thorough"
    J = []
    for mode in (C.MODES4 if th else ["gregorian", "360day"]):
        greg = mode == "gregorian"
        for m in (range(1, 13) if (greg or th) else (2, 12)):
            J.append(("job_str", dict(mode=mode, rep="cal", ranges={"M": (m, m)})))
        for lo in (1, 123, 245):
            J.append(("job_str", dict(mode=mode, rep="ord", ranges={"DOY": (lo, min(lo + 121, 366))})))
        if greg:
            # week dates: mod-7 arithmetic over decimal year digits is slow in z3 -> years 2000-2099 / +-002000-002099
            for w in ((1, 1), (2, 51), (52, 53)):
                J.append(("job_str", dict(mode=mode, rep="week", ranges={"W": w, "y0": (2, 2), "y1": (0, 0)})))
            for rep, rg in (("cal", {"M": (2, 2)}), ("ord", {"DOY": (360, 366)}),
                            ("week", {"W": (52, 53), "y0": (0, 0), "y1": (0, 0), "y2": (2, 2), "y3": (0, 0)})):
                J.append(("job_str", dict(mode=mode, rep=rep, ned=2, ranges=rg)))
                J.append(("job_str", dict(mode=mode, rep=rep, ned=2, neg=True, ranges=rg)))
            for tod in DECIMAL_TODS:
                J.append(("job_str", dict(mode=mode, rep="cal", tod=tod, ranges={"M": (2, 3)})))
                J.append(("job_str", dict(mode=mode, rep="ord", ned=2, neg=True, tod=tod, tz=(0, 0), ranges={"DOY": (1, 3)})))
            for fmt in FORMATS:
                rep = "ord" if "DDD" in fmt else ("week" if "W" in fmt else "cal")
                rg = {"cal": {"M": (12, 12), "D": (30, 31)}, "ord": {"DOY": (365, 366)}, "week": {"W": (52, 53), "WD": (6, 7)}}[rep]
                literal = fmt.endswith("Z") or any(ch.isdigit() for ch in fmt)
                if rep == "week":
                    rg = dict(rg, y0=(2, 2) if "X" not in fmt else (0, 0), y1=(0, 0))      # mod-7 arithmetic on decimal-digit years is slow in z3
                if literal:
                    # the dump converts to the literal zone: keep the carry case-splits small
                    J.append(("job_format", dict(mode=mode, rep=rep, fmt=fmt, ranges=dict(rg, y0=(0, 8), tzh=(-14, 14), tzm=(0, 0)))))
                    J.append(("job_format", dict(mode=mode, rep=rep, fmt=fmt, ranges=dict(rg, y0=(0, 8), tzh=(0, 0), h=(22, 24)))))
                else:
                    J.append(("job_format", dict(mode=mode, rep=rep, fmt=fmt, ranges=dict(rg))))
                # the largest year the format can spell (9999 / +999999), away from the year end so that no zone
                # conversion leaves the range
                nd = 6 if "X" in fmt else 4
                top = {"y%d" % k: (9, 9) for k in range(nd)}
                mid = {"cal": {"M": (6, 6), "D": (14, 15)}, "ord": {"DOY": (180, 181)}, "week": {"W": (26, 26)}}[rep]
                J.append(("job_format", dict(mode=mode, rep=rep, fmt=fmt, ranges=dict(top, tzh=(-14, 14), **mid))))
                if th:
                    # (years 20xx, whole-hour offsets: these jobs hit the job budget with free digits; at year 0000 / 9999 the conversion to the format's zone or week-year leaves the
                    # four digits, which the dumper rightly refuses)
                    J.append(("job_format", dict(mode=mode, rep={"cal": "ord", "ord": "week", "week": "cal"}[rep], fmt=fmt,
                                                 ranges=dict({"DOY": (1, 2), "W": (1, 1), "WD": (1, 2), "M": (1, 1), "D": (1, 2), "tzh": (-14, 14), "tzm": (0, 0)},
                                                             **({"y0": (0, 0), "y1": (0, 0), "y2": (2, 2), "y3": (0, 0)} if "X" in fmt else
                                                                {"y0": (2, 2), "y1": (0, 0)})))))
    return J


def job_weight(fn, kw):
    return 30 if fn == "job_format" else (25 if kw.get("rep") == "week" else 10)


INFO = {
    "explanation": "C08: str(p) for a symbolic valid TimePoint (year given by its decimal digits: 0000-9999, and +-XCCYY with two "
                   "expanded digits incl. negative years; 3 representations; any whole-second time incl. 24:00:00; any offset; "
                   "decimal hour/minute/second forms with concrete fractions) is produced by the real dumper as a string with "
                   "symbolic digits and parsed back by the real parser: same representation, field values and offset, "
                   "parse(str(p)) == p, and str is a fixpoint; dumping with 14 complete custom formats (incl. literal zones) "
                   "parses back to the same instant.",
    "bounds": {"quick": {"years": "0000..9999 (every calendar/ordinal date; week dates: 2000-2099), +-000000..999999 (Feb / year end; week dates: +-002000..002099)", "offsets": "-99:59..+99:59",
                         "decimal forms": "10 concrete times with 1-6 fraction digits (hh,ii / hh:mm,nn / hh:mm:ss,tt)",
                         "formats": "14 complete formats, last days of the year, years 0000..8999; formats with a literal zone: source offsets whole hours -14..+14, or -00:59..+00:59 late in the day", "modes": "gregorian; 360day for calendar/ordinal"},
               "thorough": {"modes": "calendar (every month) and ordinal dates in all 4 modes; week dates, expanded years, decimals and custom formats in gregorian", "formats": "each also dumped from another representation"}},
    "outside": ["decimal fractions with symbolic digits (floating point)", "more than two expanded year digits",
                "custom formats other than the listed ones", "truncated points"],
    "assumptions": ["the regex shim interprets the library's own patterns; validated against re on every run",
                    "get_days_in_year_range runs as its closed form (C03)"],
}
REQUIRED_SCENARIOS = {"all": ["24:00 time", "UTC (Z) zone", "zone -00:mm", "year with leading zeros", "expanded year",
                              "negative year", "decimal time form", "rep:cal", "rep:ord", "rep:week", "custom format",
                              "literal zone in format"]}
