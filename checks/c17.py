"""C17 -- strftime matches POSIX for the supported directives and strptime
inverts it.

Real code: TimePoint.strftime -> TimePointDumper.strftime ->
parser_spec.translate_strftime_token -> _dump_expression_with_properties (and
the TimePoint properties it reads, incl. seconds_since_unix_epoch);
TimePointParser.strptime -> translate_strptime_token ->
_parse_from_custom_regex -> _create_timepoint_from_info (and
get_timepoint_properties_from_seconds_since_unix_epoch for %s).
"""
import z3

import refmodel as R
from symx import core, strs
from symx.core import lift, conc, SymInt
from symx.harness import sym_run, new_result
from symx.strs import SymStr, z3_str_eq
from . import common as C
from .c03 import install_range_summary, install_weeks_summary
from .c08 import sym_point, case_point, fields_equal

PROPERTY = "C17"
L = lift
M = core.MOps
NEEDS_STRING_VALIDATION = True

FORMATS = ["%Y", "%m", "%d", "%j", "%H", "%M", "%S", "%F", "%X", "%z", "%Y-%m-%dT%H:%M:%S%z", "%Y%m%dT%H%M%S%z",
           "%Y-%jT%X%z", "%FT%X%z", "on %d/%m/%Y at %H.%M", "%Y%%%m", "week? %Y-%j %z", "%H:%M:%S %z on %F"]
FULL = ["%Y-%m-%dT%H:%M:%S%z", "%Y%m%dT%H%M%S%z", "%Y-%jT%X%z", "%FT%X%z", "%H:%M:%S %z on %F"]
PARTIAL = ["%Y-%m-%d", "%Y%j", "%FT%H", "%Y-%m-%dT%H:%M", "%Y"]
UNSUPPORTED = ["%a", "%A", "%b", "%B", "%c", "%C", "%D", "%e", "%g", "%G", "%h", "%I", "%k", "%l", "%n", "%p", "%r", "%R",
               "%t", "%T", "%u", "%U", "%V", "%w", "%W", "%x", "%y", "%Z"]


def posix(fmt, f):
    """the POSIX rendering of the civil fields f (proxies) for our directive subset"""
    out = []
    k = 0
    while k < len(fmt):
        c = fmt[k]
        if c != "%":
            out.append(c)
            k += 1
            continue
        d = fmt[k + 1]
        k += 2
        if d == "%":
            out.append("%")
        elif d == "Y":
            out.extend(SymStr.lift(strs.fmt_percent("%04d", f["Y"])))
        elif d == "m":
            out.extend(SymStr.lift(strs.fmt_percent("%02d", f["m"])))
        elif d == "d":
            out.extend(SymStr.lift(strs.fmt_percent("%02d", f["d"])))
        elif d == "j":
            out.extend(SymStr.lift(strs.fmt_percent("%03d", f["j"])))
        elif d == "H":
            out.extend(SymStr.lift(strs.fmt_percent("%02d", f["H"])))
        elif d == "M":
            out.extend(SymStr.lift(strs.fmt_percent("%02d", f["M"])))
        elif d == "S":
            out.extend(SymStr.lift(strs.fmt_percent("%02d", f["S"])))
        elif d == "F":
            out.extend(SymStr.lift(strs.fmt_percent("%04d-%02d-%02d", (f["Y"], f["m"], f["d"]))))
        elif d == "X":
            out.extend(SymStr.lift(strs.fmt_percent("%02d:%02d:%02d", (f["H"], f["M"], f["S"]))))
        elif d == "z":
            out.extend(f["zsign"])
            out.extend(SymStr.lift(strs.fmt_percent("%02d%02d", (f["zh"], f["zm"]))))
        elif d == "s":
            out.extend(SymStr.lift(strs.str_of_int(f["s"])))
        else:
            raise KeyError(d)
    return SymStr.make(out)


def civil(data, mode, p, rep, want_s=False):
    """civil fields of p: calendar date and day-of-year through the real,
    C03-verified conversions; zone sign/abs from the oracle"""
    y, m, d = p.get_calendar_date()
    _, j = p.get_ordinal_date()
    tz = p._time_zone
    tot = tz._hours * 60 + tz._minutes
    neg = bool(tot < 0)
    f = {"Y": y, "m": m, "d": d, "j": j, "H": p._hour_of_day, "M": p._minute_of_hour, "S": p._second_of_minute,
         "zsign": ["-"] if neg else ["+"], "zh": abs(tz._hours), "zm": abs(tz._minutes)}
    if want_s:
        ep = R.daynum_cal(R.PyOps, mode, 1970, 1, 1) * 86400
        f["s"] = C.m_instant(mode, p, rep) - ep
    return f


def job_strftime(ctx, mode, rep, fmt, ranges=None):
    data = ctx.data
    C.set_mode(data, mode)
    install_range_summary(data, mode)
    install_weeks_summary(data, mode)

    def make(e):
        return {"p": sym_point(e, data, rep, 0, False, "sym", "sym")}

    def pre(i):
        # 24:00 is normalised by POSIX-style rendering only through mktime; the library renders the stored fields,
        # so the comparison is made for 0 <= h < 24
        return C.m_valid_point(mode, i["p"], rep, False)

    epoch_fmt = "%s" in fmt

    def body(i):
        p = i["p"]
        if epoch_fmt:
            # the digits of a 12-digit number are compared numerically: the text strftime writes must be the
            # library's own decimal rendering (prop) of a number equal to the oracle's Unix time
            prop = p.seconds_since_unix_epoch
            return p.strftime(fmt), fmt.replace("%s", "\0").split("\0"), prop
        return p.strftime(fmt), posix(fmt, civil(data, mode, p, rep, False))

    def post(i, out):
        if out[0] != "ok":
            return [("supported directives render", False)]
        if epoch_fmt:
            got, lits, prop = out[1]
            num = getattr(prop, "num", None)
            if num is None:
                return [("%s renders an integer", False)]
            ep = R.daynum_cal(R.PyOps, mode, 1970, 1, 1) * 86400
            want = SymStr.make(list(lits[0]) + list(SymStr.lift(prop)) + list(lits[1]))
            return [("%s is the Unix time of the instant", L(num) == L(C.m_instant(mode, i["p"], rep)) - ep),
                    ("written in place, as a plain decimal integer", z3_str_eq(got, want))]
        got, want = out[1]
        return [("strftime output is the POSIX rendering of the civil date-time", z3_str_eq(got, want))]

    def case_of(v, i):
        return {"check": "strftime", "mode": mode, "rep": rep, "fmt": fmt, "p": case_point(v, rep, 0, False, "sym", "sym")}

    return sym_run("strftime[%s,%s,%r,%s]" % (mode, rep, fmt, ranges), make, pre, body, post, case_of, ranges=ranges,
                   engine_opts={"fork_span": 2} if rep != "week" else None,
                   scenarios=lambda i: {"strftime": True, "week-date point": rep == "week",
                                        "negative offset": conc(i["p"]._time_zone._hours) < 0},
                   bounds={"format": fmt, "years": "0000..9999", "offsets": "-99:59..+99:59"}, sample_every=100)


def job_roundtrip(ctx, mode, rep, fmt, full, ranges=None, assumed=(5, 30)):
    data, parsers = ctx.data, ctx.parsers
    C.set_mode(data, mode)
    install_range_summary(data, mode)
    install_weeks_summary(data, mode)
    PARSER = parsers.TimePointParser(assumed_time_zone=assumed)

    def make(e):
        return {"p": sym_point(e, data, rep, 0, False, "sym", "sym")}

    def pre(i):
        return C.m_valid_point(mode, i["p"], rep, False)

    def body(i):
        p = i["p"]
        s = p.strftime(fmt)
        q = PARSER.strptime(s, fmt)
        return s, q, (q == p) if full else None

    def post(i, out):
        if out[0] != "ok":
            return [("strptime accepts what strftime wrote", False)]
        p = i["p"]
        s, q, eq = out[1]
        qr = C.rep_of(q)
        if qr is None or q._truncated:
            return [("a full date-time", False)]
        obs = [("valid point", C.m_valid_point(mode, q, qr, False))]
        if full:
            obs += [("strptime(strftime(p)) has p's instant", L(C.m_instant(mode, q, qr)) == L(C.m_instant(mode, p, rep))),
                    ("and p's UTC offset", C.z_same_zone(p, q)), ("== p", bool(eq))]
            return obs
        # partial formats: omitted parts default to the start of the period and the assumed zone
        y, m, d = p.get_calendar_date()
        _, j = p.get_ordinal_date()
        want_date = {"%Y-%m-%d": ("cal", (y, m, d)), "%Y%j": ("ord", (y, j)), "%FT%H": ("cal", (y, m, d)),
                     "%Y-%m-%dT%H:%M": ("cal", (y, m, d)), "%Y": ("cal", (y, 1, 1))}[fmt]
        got_n = L(C.m_daynum(mode, qr, C.fields_of(q, qr)))
        obs.append(("the date is the written one (defaults: start of the period)",
                    got_n == L(C.m_daynum(mode, want_date[0], want_date[1]))))
        wh = p._hour_of_day if "%H" in fmt else 0
        wm = p._minute_of_hour if "%M" in fmt else 0
        obs.append(("omitted time fields are zero", z3.And(L(q._hour_of_day) == L(wh), L(q._minute_of_hour) == L(wm),
                                                           L(q._second_of_minute) == 0)))
        obs.append(("a missing zone is the assumed one", z3.And(L(q._time_zone._hours) == assumed[0], L(q._time_zone._minutes) == assumed[1])))
        return obs

    def case_of(v, i):
        return {"check": "roundtrip", "mode": mode, "rep": rep, "fmt": fmt, "full": full, "assumed": list(assumed),
                "p": case_point(v, rep, 0, False, "sym", "sym")}

    return sym_run("roundtrip[%s,%s,%r,%s]" % (mode, rep, fmt, ranges), make, pre, body, post, case_of, ranges=ranges,
                   engine_opts={"fork_span": 2} if rep != "week" else None,
                   scenarios=lambda i: {"strptime round trip": full, "strptime defaults": not full},
                   bounds={"format": fmt, "years": "0000..9999"}, sample_every=100)


def job_epoch(ctx, mode, rep, ranges=None, direction="both"):
    """%s: strftime writes the Unix time of the instant; strptime reads it back"""
    data, parsers = ctx.data, ctx.parsers
    C.set_mode(data, mode)
    install_range_summary(data, mode)
    install_weeks_summary(data, mode)
    PARSER = parsers.TimePointParser(assumed_time_zone=(0, 0))

    def make(e):
        p = C.point_input(e, data, "", rep, K=(4, 5), tzh=(-1, 1), tzm=(0, 0), hmax=23)
        # years 1969-1971 (the real %s parser walks day by day from 1970)
        p._year = 1969 + e.var("yy", 0, 2)
        return {"p": p}

    def pre(i):
        return C.m_valid_point(mode, i["p"], rep, False)

    def body(i):
        p = i["p"]
        s = p.strftime("%s")
        return s, PARSER.strptime(s, "%s") if direction == "both" else None

    def post(i, out):
        if out[0] != "ok":
            return [("%s renders / parses", False)]
        p = i["p"]
        s, q = out[1]
        ep = R.daynum_cal(R.PyOps, mode, 1970, 1, 1) * 86400
        want = strs.str_of_int(C.m_instant(mode, p, rep) - ep)
        obs = [("%s is the Unix time of the instant", z3_str_eq(s, want))]
        if q is not None:
            qr = C.rep_of(q)
            obs.append(("strptime('%s') recovers the instant", L(C.m_instant(mode, q, qr)) == L(C.m_instant(mode, p, rep))))
        return obs

    def case_of(v, i):
        kw = C.point_case(v, "", rep)
        kw["year"] = 1969 + v["yy"]
        return {"check": "epoch", "mode": mode, "rep": rep, "p": kw}

    return sym_run("epoch[%s,%s,%s,%s]" % (mode, rep, ranges, direction), make, pre, body, post, case_of, ranges=ranges,
                   scenarios=lambda i: {"%s before 1970": conc(i["p"]._year) < 1970, "%s after 1970": conc(i["p"]._year) >= 1970},
                   bounds={"years": "1969..1971", "offsets": "whole hours +-1"}, sample_every=100)


SEQ_DRIVER = r"""
import json, sys
from metomi.isodatetime.data import TimePoint, TimeZone
from metomi.isodatetime.parsers import TimePointParser
P = TimePointParser(assumed_time_zone=(0, 0))
out = []
pts = [P.parse(s) for s in ("2021-03-15T11:55:05+13:45", "2021-03-14T22:10:05Z", "2021-03-14T17:10:05-05:00",
                            "2000-12-31T24:00:00Z", "2001-01-01T00:00:00Z", "2004-W53-7T23:00:00-01:00", "2005-01-03T00:00:00Z")]
fmts = ["%F %X %z", "%Y-%jT%H:%M", "%s %d/%m", "%H%M%S%z"]
full = ["%F %X %z", "%Y-%m-%dT%H:%M:%S%z", "%FT%X%z", "%s"]
def fmt_all(order):
    for f in fmts:
        for p in order:                     # equal instants in different offsets, one after the other
            out.append(["strftime", f, str(p), p.strftime(f)])
def parse_all():
    for f in full:                          # reading text back, between the formatting rounds
        for p in pts[:3]:
            t = p.strftime(f)
            out.append(["strftime", f, str(p), t])
            try:
                out.append(["strptime", f, t, str(P.strptime(t, f))])
            except Exception as exc:
                out.append(["strptime", f, t, "raised " + type(exc).__name__])
fmt_all(pts)
parse_all()
fmt_all(list(reversed(pts)))
parse_all()
print(json.dumps(out))
"""


def _seq(repo=None):
    import json, os, subprocess, sys
    repo = os.environ.get("VERIF_REPO", "/repo")
    p = subprocess.run([sys.executable, "-c", SEQ_DRIVER], capture_output=True, text=True, env=dict(os.environ, PYTHONPATH=repo),
                       cwd=repo, timeout=120)
    return json.loads(p.stdout.strip().splitlines()[-1]) if p.returncode == 0 else None


def _single(op, fmt, text):
    """the same single call in a fresh process"""
    import json, os, subprocess, sys
    repo = os.environ.get("VERIF_REPO", "/repo")
    code = ("import sys; from metomi.isodatetime.parsers import TimePointParser\n"
            "P = TimePointParser(assumed_time_zone=(0,0))\n"
            "try:\n"
            "    print(P.parse(sys.argv[3]).strftime(sys.argv[2]) if sys.argv[1] == 'strftime' else P.strptime(sys.argv[3], sys.argv[2]))\n"
            "except Exception as exc:\n"
            "    print('raised ' + type(exc).__name__)\n")
    p = subprocess.run([sys.executable, "-c", code, op, fmt, text], capture_output=True, text=True, env=dict(os.environ, PYTHONPATH=repo),
                       cwd=repo, timeout=60)
    return p.stdout.rstrip("\n") if p.returncode == 0 else None


def job_sequence(ctx):
    """concrete supplement: formatting several equal instants held in different offsets / forms one after the other in
    one process, with strptime calls in between, gives for each call what a fresh process gives (no state carried
    between calls)"""
    res = new_result("sequence[concrete]")
    seq = _seq()
    if seq is None:
        res["error"] = "sequence driver failed"
        return res
    memo = {}
    for op, fmt, text, got in seq:
        res["obligations"] += 1
        res["paths"] += 1
        if (op, fmt, text) not in memo:
            memo[(op, fmt, text)] = _single(op, fmt, text)
        if got == memo[(op, fmt, text)]:
            res["discharged"] += 1
            res["trivially"] += 1
        elif len(res["candidates"]) < 3:
            res["candidates"].append({"label": "%s result independent of earlier calls" % op, "how": "concrete",
                                      "case": {"check": "sequence", "mode": "gregorian", "op": op, "fmt": fmt, "text": text}})
    res["nontrivial_paths"] = res["paths"]
    res["scenarios"]["call sequences"] = {"calls": len(seq)}
    res["notes"].append("concrete sequence in one process vs fresh processes; not a solver verdict")
    return res


def job_unsupported(ctx):
    data, parsers = ctx.data, ctx.parsers
    res = new_result("unsupported[concrete]")
    p = data.TimePoint(year=2004, month_of_year=2, day_of_month=29, hour_of_day=13, minute_of_hour=5, second_of_minute=9)
    P_ = parsers.TimePointParser(assumed_time_zone=(0, 0))
    SSE = ctx.exceptions.StrftimeSyntaxError
    for d in UNSUPPORTED:
        for fmt in (d, "%Y-" + d):
            res["obligations"] += 2
            res["paths"] += 1
            ok1 = ok2 = False
            try:
                p.strftime(fmt)
            except SSE:
                ok1 = True
            except Exception:
                pass
            try:
                P_.strptime("x", fmt)
            except SSE:
                ok2 = True
            except Exception:
                pass
            res["discharged"] += int(ok1) + int(ok2)
            res["trivially"] += int(ok1) + int(ok2)
            if not (ok1 and ok2):
                res["candidates"].append({"label": "unsupported directive refused with StrftimeSyntaxError", "how": "concrete",
                                          "case": {"check": "unsupported", "mode": "gregorian", "fmt": fmt}})
    res["nontrivial_paths"] = res["paths"]
    res["scenarios"]["unsupported directives"] = {"directives": UNSUPPORTED}
    res["notes"].append("concrete enumeration of the other %-letter directives")
    return res


# ---------------------------------------------------------------------------
def py_posix(mode, p, fmt):
    n = C.py_daynum(mode, p)
    y, m, d = R.py_cal_of_daynum(mode, n)
    j = R.py_ord_of_daynum(mode, n)[1]
    tz = p._time_zone
    sign = "-" if (tz._hours * 60 + tz._minutes) < 0 else "+"
    ep = R.daynum_cal(R.PyOps, mode, 1970, 1, 1) * 86400
    rep = {"%Y": "%04d" % y, "%m": "%02d" % m, "%d": "%02d" % d, "%j": "%03d" % j, "%H": "%02d" % p._hour_of_day,
           "%M": "%02d" % p._minute_of_hour, "%S": "%02d" % p._second_of_minute, "%F": "%04d-%02d-%02d" % (y, m, d),
           "%X": "%02d:%02d:%02d" % (p._hour_of_day, p._minute_of_hour, p._second_of_minute),
           "%z": "%s%02d%02d" % (sign, abs(tz._hours), abs(tz._minutes)), "%s": str(C.py_instant(mode, p) - ep), "%%": "%"}
    out, k = "", 0
    while k < len(fmt):
        if fmt[k] == "%":
            out += rep[fmt[k:k + 2]]
            k += 2
        else:
            out += fmt[k]
            k += 1
    return out


def replay(case, M_):
    data, parsers = M_.data, M_.parsers
    mode = case.get("mode", "gregorian")
    data.CALENDAR.set_mode(mode)
    try:
        k = case["check"]
        if k == "sequence":
            seq = _seq()
            cop = case.get("op", "strftime")
            for op, fmt, text, got in seq or []:
                if op == cop and fmt == case["fmt"] and text == case["text"]:
                    want = _single(op, fmt, text)
                    if got != want:
                        return True, "in a sequence of strftime / strptime calls, %s of %r with %r gives %r; a fresh process gives %r" % (
                            op, text, fmt, got, want)
            return False, "sequence ok"
        if k == "unsupported":
            p = data.TimePoint(year=2004, month_of_year=2, day_of_month=29)
            bad = []
            for what, fn in (("strftime", lambda: p.strftime(case["fmt"])),
                             ("strptime", lambda: parsers.TimePointParser(assumed_time_zone=(0, 0)).strptime("x", case["fmt"]))):
                try:
                    r = fn()
                    bad.append("%s(%r) returned %r" % (what, case["fmt"], str(r)))
                except M_.exceptions.StrftimeSyntaxError:
                    pass
                except Exception as exc:
                    bad.append("%s(%r) raised %s" % (what, case["fmt"], type(exc).__name__))
            return bool(bad), "; ".join(bad) or "refused"
        kw = dict(case["p"])
        kw.pop("tod", None)
        p = data.TimePoint(**kw)
        fmt = case.get("fmt", "%s")
        if k == "strftime":
            got, want = p.strftime(fmt), py_posix(mode, p, fmt)
            return got != want, "%s .strftime(%r) = %r, POSIX rendering %r" % (p, fmt, got, want)
        if k == "epoch":
            got, want = p.strftime("%s"), py_posix(mode, p, "%s")
            if got != want:
                return True, "%s .strftime('%%s') = %r, Unix time %r" % (p, got, want)
            q = parsers.TimePointParser(assumed_time_zone=(0, 0)).strptime(got, "%s")
            return C.py_instant(mode, q) != C.py_instant(mode, p), "strptime(%r, '%%s') = %s" % (got, q)
        s = p.strftime(fmt)
        assumed = tuple(case["assumed"])
        try:
            q = parsers.TimePointParser(assumed_time_zone=assumed).strptime(s, fmt)
        except Exception as exc:
            return True, "strptime(%r, %r) raised %s: %s" % (s, fmt, type(exc).__name__, exc)
        if case["full"]:
            bad = not (q == p) or (q._time_zone._hours, q._time_zone._minutes) != (p._time_zone._hours, p._time_zone._minutes)
            return bad, "strptime(strftime(%s, %r) = %r) = %s" % (p, fmt, s, q)
        n = C.py_daynum(mode, p)
        y, m, d = R.py_cal_of_daynum(mode, n)
        want_n = R.daynum_cal(R.PyOps, mode, y, 1, 1) if fmt == "%Y" else n
        bad = (C.py_daynum(mode, q) != want_n or (q._time_zone._hours, q._time_zone._minutes) != assumed or
               q._hour_of_day != (p._hour_of_day if "%H" in fmt else 0) or q._minute_of_hour != (p._minute_of_hour if "%M" in fmt else 0) or
               q._second_of_minute != 0)
        return bad, "strptime(%r, %r) = %s (assumed zone %s)" % (s, fmt, q, assumed)
    finally:
        data.CALENDAR.set_mode("gregorian")


def jobs(tier):
    th = tier == "thorough"
    J = [("job_unsupported", {}), ("job_sequence", {})]
    W = {"cal": [{"M": (1, 2)}, {"M": (3, 12)}], "ord": [{"DOY": (1, 60)}, {"DOY": (61, 366)}],
         "week": [{"W": (1, 1), "y0": (2, 2), "y1": (0, 0)}, {"W": (26, 26), "y0": (2, 2), "y1": (0, 0)},
                  {"W": (52, 53), "y0": (2, 2), "y1": (0, 0)}]}
    for mode in (C.MODES4 if th else ["gregorian"]):
        last = {"gregorian": 366, "360day": 360, "365day": 365, "366day": 366}[mode]
        lastdom = 30 if mode == "360day" else 31
        for fmt in FORMATS:
            datey = any(x in fmt for x in ("%Y", "%m", "%d", "%j", "%F"))
            for rep in C.REPS:
                if not datey and rep != "cal":
                    continue
                for rg in (W[rep] if datey else W[rep][:1]):
                    if rep == "week" and not th and fmt not in ("%Y", "%F", "%j", "%Y-%jT%X%z"):
                        continue
                    J.append(("job_strftime", dict(mode=mode, rep=rep, fmt=fmt, ranges=rg)))
        # %s output for every year (the subtraction from 1970 is closed-form); day windows keep the case splits small
        for rg in ({"DOY": (1, 2)}, {"DOY": (59, 60)}, {"DOY": (last - 1, last)}):
            for hh in ((0, 1), (22, 23)):
                J.append(("job_strftime", dict(mode=mode, rep="ord", fmt="%s", ranges=dict(rg, h=hh, tzh=(-1, 1), tzm=(0, 0)))))
        J.append(("job_strftime", dict(mode=mode, rep="cal", fmt="at %s", ranges={"M": (12, 12), "D": (lastdom, lastdom), "h": (22, 23), "tzh": (-1, 1), "tzm": (0, 0)})))
        for fmt in FULL:
            for rep in (C.REPS if th else ["cal", "ord"]):
                for rg in W[rep]:
                    J.append(("job_roundtrip", dict(mode=mode, rep=rep, fmt=fmt, full=True, ranges=rg)))
        for fmt in PARTIAL:
            J.append(("job_roundtrip", dict(mode=mode, rep="cal", fmt=fmt, full=False, ranges={"M": (2, 3)})))
            J.append(("job_roundtrip", dict(mode=mode, rep="ord", fmt=fmt, full=False, ranges={"DOY": (last - 6, last)})))
        for rep, rgs in (("ord", [{"DOY": (1, 2)}, {"DOY": (59, 60)}, {"DOY": (last - 1, last)}]),
                         ("cal", [{"M": (1, 1), "D": (1, 1)}, {"M": (12, 12), "D": (lastdom, lastdom)}])):
            for rg in rgs:
                for hh in ((0, 0), (23, 23)):
                    J.append(("job_epoch", dict(mode=mode, rep=rep, ranges=dict(rg, h=hh))))
    return J


def job_weight(fn, kw):
    return {"job_epoch": 80, "job_roundtrip": 30}.get(fn, 10)


INFO = {
    "explanation": "C17: p.strftime(fmt) for a symbolic valid TimePoint (years 0000-9999 by decimal digits, 3 representations, any "
                   "offset, whole seconds) and 18 concrete formats over %Y %m %d %j %H %M %S %F %X %z and literal text: the "
                   "symbolic output string equals the POSIX rendering of the civil fields (calendar date / day of year through "
                   "the real, C03-verified conversions); %s is the Unix time of the instant; strptime(strftime(p, f), f) == p "
                   "with p's offset for formats fixing date, time and zone, documented defaults otherwise; the other %-letter "
                   "directives raise StrftimeSyntaxError (concrete enumeration).",
    "bounds": {"quick": {"years": "0000..9999 (%s: 1969..1971, whole-hour offsets +-1, dates at the year ends / end of February)",
                         "%s output": "years 0000..9999, ordinal days 1-2, 59-60, 365-366, first/last two hours of the day, whole-hour offsets +-1", "formats": "18 for strftime; 5 complete + 5 partial for the strptime round trip; week-date points: 4 formats, years 2000-2099, weeks 1, 26, 52, 53",
                         "mode": "gregorian"},
               "thorough": {"mode": "all 4", "week-date points": "every format"}},
    "outside": ["24:00 points (rendered as stored)", "fractional seconds", "format strings other than the listed ones",
                "%s parsing far from 1970 (the real code walks one day per path)"],
    "assumptions": ["civil calendar date / day-of-year of ordinal and week points come from the real conversions (C03)",
                    "the regex shim interprets the library's own patterns; validated against re on every run"],
}
REQUIRED_SCENARIOS = {"all": ["call sequences", "strftime", "week-date point", "negative offset", "strptime round trip", "strptime defaults",
                              "%s before 1970", "%s after 1970", "unsupported directives"]}
