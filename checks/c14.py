"""C14 -- recurrences are values: shifting, equality, hashing (and, with the
string layer, the text round trip).

Real code: TimeRecurrence.__add__/__sub__/__eq__/__hash__/__init__,
Duration.__add__(TimeRecurrence), Duration.__eq__/__hash__, TimePoint ==/hash.
"""
import z3

import refmodel as R
from symx import core
from symx.core import lift, conc, hashkey_eq
from symx.harness import sym_run
from . import common as C
from .c01 import MULT, same_point_z3
from .c03 import install_range_summary
from .c12 import build, take, anchor_input

PROPERTY = "C14"
L = lift
IV = {"PT36H": dict(hours=36), "P1D": dict(days=1), "P1M": dict(months=1), "P1Y2D": dict(years=1, days=2), "P31D": dict(days=31)}


def same_dur_z3(a, b):
    if a is None or b is None:
        return a is b
    from .c11 import z_same
    return z_same(a, b)


def job_shift(ctx, mode, fmt, reps, iv, unit, lo, hi, ranges=None):
    data = ctx.data
    C.set_mode(data, mode)
    install_range_summary(data, mode)
    kw = IV[iv]

    def make(e):
        return {"a": anchor_input(e, data, "", "ord"), "n": e.var("n", lo, hi)}

    def pre(i):
        return C.m_valid_point(mode, i["a"], "ord", False)

    def body(i):
        a, n = i["a"], i["n"]
        d = data.Duration(**kw)
        r = build(data, fmt, reps, a, d, a + d if fmt == 1 else None)
        s = data.Duration(**{unit: n})
        moved = r + s
        o = {"r": r, "moved": moved, "radd": s + r, "sub": r - data.Duration(**{unit: -n}),
             "back_eq": ((moved - s) == r)}
        k = reps if reps is not None else 3
        o["pts"], o["mpts"] = take(r, k), take(moved, k)
        return o

    def post(i, out):
        if out[0] != "ok":
            return [("no exception", False)]
        o = out[1]
        r, m = o["r"], o["moved"]
        shift = L(i["n"]) * MULT[unit]
        obs = [("same repetitions", m._repetitions == r._repetitions),
               ("same interval", same_dur_z3(m._duration, r._duration))]
        exact = data.Duration(**kw).is_exact()
        for name in ("_start_point", "_end_point"):
            x, y = getattr(r, name), getattr(m, name)
            if x is None or y is None:
                obs.append(("%s present iff it was" % name[1:], x is y))
                continue
            anchor_slot = (fmt in (1, 3) and name == "_start_point") or (fmt == 4 and name == "_end_point")
            if anchor_slot or exact:
                obs.append(("%s moved by exactly d" % name[1:],
                            L(C.m_instant(mode, y, "ord")) == L(C.m_instant(mode, x, "ord")) + shift))
        if exact:
            obs.append(("same number of points", len(o["pts"]) == len(o["mpts"])))
            for x, y in zip(o["pts"], o["mpts"]):
                obs.append(("every point moved by exactly d",
                            L(C.m_instant(mode, y, "ord")) == L(C.m_instant(mode, x, "ord")) + shift))
        for k2, lab in (("radd", "d + r"), ("sub", "r - (-d)")):
            z = o[k2]
            obs.append(("%s is r + d" % lab, z3.And(
                z3.BoolVal(z._repetitions == m._repetitions),
                same_point_z3(z._start_point, m._start_point) if (z._start_point is not None and m._start_point is not None) else z3.BoolVal(z._start_point is m._start_point),
                same_point_z3(z._end_point, m._end_point) if (z._end_point is not None and m._end_point is not None) else z3.BoolVal(z._end_point is m._end_point))))
        obs.append(("(r + d) - d == r", bool(o["back_eq"])))
        return obs

    def case_of(v, i):
        return {"check": "shift", "mode": mode, "fmt": fmt, "reps": reps, "iv": iv, "a": C.point_case(v, "", "ord"),
                "shift": {unit: v["n"]}}

    return sym_run("shift[%s,fmt%d,R%s,%s,%s %d..%d,%s]" % (mode, fmt, reps, iv, unit, lo, hi, ranges), make, pre, body, post,
                   case_of, ranges=ranges,
                   scenarios=lambda i: {"shift fmt%d" % fmt: True, "single-point recurrence": reps == 1,
                                        "negative shift": conc(i["n"]) < 0},
                   bounds={"interval": iv, "repetitions": reps, "shift": {unit: [lo, hi]}}, sample_every=100)


def job_shift_nominal(ctx, mode, fmt, reps, iv, unit, lo, hi, rep="cal", ranges=None):
    """shift by a month / year duration: the statement fixes repetitions, interval (start/duration and duration/end
    notations) and that every *given* anchor is moved by d - i.e. equals anchor + d as TimePoint addition (C05's
    subject) computes it.  Anchors in calendar form on month ends so that clipping matters."""
    data = ctx.data
    C.set_mode(data, mode)
    install_range_summary(data, mode)
    kw = IV[iv]
    holder = {}

    def make(e):
        holder.clear()
        return {"a": anchor_input(e, data, "", rep), "n": e.var("n", lo, hi)}

    def pre(i):
        return C.m_valid_point(mode, i["a"], rep, False)

    def body(i):
        a, n = i["a"], i["n"]
        holder.clear()
        d = data.Duration(**kw)
        r = build(data, fmt, reps, a, d, a + d if fmt == 1 else None)
        s = data.Duration(**{unit: n})
        names = {1: ("_start_point", "_second_point"), 3: ("_start_point",), 4: ("_end_point",)}[fmt]
        want = {name: getattr(r, name) + s for name in names}
        holder["want"] = want
        return {"r": r, "moved": r + s, "radd": s + r, "sub": r - data.Duration(**{unit: -n}), "want": want}

    def post(i, out):
        if out[0] != "ok":
            want = holder.get("want")
            # (OverflowError: the refusal's message prints the anchors, and the harness' symbolic points carry six-digit
            # years without expanded-year digits; the replay builds them with the digits and sees the BadInputError)
            if fmt == 1 and isinstance(out[1], (ValueError, OverflowError)) and want:
                # month-end clamping can move the start past the second point (01-29T12:00 / 01-31T00:00 + P3M ->
                # 04-28T12:00 / 04-28T00:00): no start/end recurrence has those anchors, refusing it is the only answer
                ws, we = want["_start_point"], want["_second_point"]
                return [("refused (ValueError) only when the moved anchors are out of order",
                         L(C.m_instant(mode, ws, rep)) > L(C.m_instant(mode, we, rep)))]
            return [("no exception (%s%s)" % (type(out[1]).__name__, "" if want else ", before the anchors were moved"), False)]
        o = out[1]
        r, m = o["r"], o["moved"]
        if fmt == 1 and m._repetitions != r._repetitions:
            # start/end notation: when clamping makes the two moved anchors coincide (day 366 -> 365, 31st -> 30th), the
            # recurrence denotes a single point and the constructor writes that as one repetition (its canonical form
            # for identical anchors); any other change of the repetition count is a violation
            w1, w2 = o["want"]["_start_point"], o["want"]["_second_point"]
            obs = [("repetitions change only when the moved anchors coincide (then: 1)",
                    z3.And(z3.BoolVal(m._repetitions == 1), same_point_z3(w1, w2)))]
        else:
            obs = [("same repetitions", m._repetitions == r._repetitions)]
        if fmt != 1:
            obs.append(("same interval", same_dur_z3(m._duration, r._duration)))
        for name, want in o["want"].items():
            for lab, z in (("r + d", m), ("d + r", o["radd"]), ("r - (-d)", o["sub"])):
                got = getattr(z, name, None)
                obs.append(("%s: %s is the anchor moved by d" % (lab, name[1:]),
                            same_point_z3(got, want) if got is not None else False))
        return obs

    def case_of(v, i):
        return {"check": "shift-nominal", "mode": mode, "fmt": fmt, "reps": reps, "iv": iv, "rep": rep,
                "a": C.point_case(v, "", rep), "shift": {unit: v["n"]}}

    return sym_run("shift-nominal[%s,fmt%d,R%s,%s,%s %d..%d,%s,%s]" % (mode, fmt, reps, iv, unit, lo, hi, rep, ranges), make, pre,
                   body, post, case_of, ranges=ranges,
                   scenarios=lambda i: {"nominal shift fmt%d" % fmt: True},
                   bounds={"interval": iv, "repetitions": reps, "shift": {unit: [lo, hi]}}, sample_every=100)


def job_equality(ctx, mode, fmt, reps, iv, vary, ranges=None):
    """two recurrences that differ in exactly one component are unequal; the
    same series spelt differently (other zone / units) is equal, with equal
    hash keys and the same points"""
    data = ctx.data
    C.set_mode(data, mode)
    install_range_summary(data, mode)
    kw = IV[iv]

    def make(e):
        i = {"a": anchor_input(e, data, "", "ord"), "delta": e.var("delta", 1, 5000)}
        if vary == "respell":
            i["zh"] = e.var("zh", -3, 3)
        return i

    def pre(i):
        return C.m_valid_point(mode, i["a"], "ord", False)

    def body(i):
        a = i["a"]
        d = data.Duration(**kw)
        r = build(data, fmt, reps, a, d, a + d if fmt == 1 else None)
        if vary == "anchor":
            a2 = a + data.Duration(seconds=i["delta"])
            s = build(data, fmt, reps, a2, d, a2 + d if fmt == 1 else None)
        elif vary == "interval":
            d2 = d + data.Duration(seconds=i["delta"])
            s = build(data, fmt, reps, a, d2, a + d2 if fmt == 1 else None)
        elif vary == "reps":
            s = build(data, fmt, (reps or 3) + 1, a, d, a + d if fmt == 1 else None)
        else:   # respell: the anchor in another zone, the interval in other units
            a2 = a.to_time_zone(data.TimeZone(hours=i["zh"], minutes=0))
            d2 = data.Duration(hours=kw["hours"] - 24, days=1) if "hours" in kw else data.Duration(hours=24 * kw["days"])
            s = build(data, fmt, reps, a2, d2, a2 + d2 if fmt == 1 else None)
        o = {"eq": r == s, "eq_rev": s == r, "ne": r != s}
        if vary == "respell":
            o["h1"], o["h2"] = r.__hash__(), s.__hash__()
            k = reps if reps is not None else 3
            o["p1"], o["p2"] = take(r, k), take(s, k)
        return o

    def post(i, out):
        if out[0] != "ok":
            return [("no exception", False)]
        o = out[1]
        eq, eqr, ne = bool(o["eq"]), bool(o["eq_rev"]), bool(o["ne"])
        obs = [("== is symmetric", eq == eqr), ("!= is the negation of ==", ne == (not eq))]
        if vary != "respell":
            obs.append(("recurrences differing in %s are unequal" % vary, not eq))
            return obs
        obs.append(("the same series spelt differently is equal", eq))
        h1, h2 = o["h1"], o["h2"]
        if isinstance(h1, core.HashKey) and isinstance(h2, core.HashKey):
            obs.append(("equal recurrences have equal hash keys", hashkey_eq(h1, h2)))
        else:
            obs.append(("equal recurrences have equal hashes", h1 == h2))
        obs.append(("same number of points", len(o["p1"]) == len(o["p2"])))
        for x, y in zip(o["p1"], o["p2"]):
            obs.append(("same instants", L(C.m_instant(mode, x, "ord")) == L(C.m_instant(mode, y, "ord"))))
        return obs

    def case_of(v, i):
        return {"check": "equality", "mode": mode, "fmt": fmt, "reps": reps, "iv": iv, "vary": vary,
                "a": C.point_case(v, "", "ord"), "delta": v["delta"], "zh": v.get("zh", 0)}

    return sym_run("equality[%s,fmt%d,R%s,%s,%s,%s]" % (mode, fmt, reps, iv, vary, ranges), make, pre, body, post, case_of,
                   ranges=ranges, scenarios=lambda i: {"vary:" + vary: True},
                   bounds={"interval": iv, "repetitions": reps, "difference": "1..5000 s" if vary in ("anchor", "interval") else vary},
                   sample_every=100)


def job_text(ctx, mode, fmt, reps, iv, rep="cal", ranges=None):
    """TimeRecurrenceParser.parse(str(r)) == r with the same points (string layer)"""
    from symx.strs import SymStr
    from .c08 import sym_point, case_point
    from .c03 import install_weeks_summary
    data, parsers = ctx.data, ctx.parsers
    C.set_mode(data, mode)
    install_range_summary(data, mode)
    install_weeks_summary(data, mode)
    kw = IV[iv]
    RP = parsers.TimeRecurrenceParser(parsers.TimePointParser(), parsers.DurationParser())

    def make(e):
        return {"a": sym_point(e, data, rep, 0, False, "sym", "sym")}

    def pre(i):
        return C.m_valid_point(mode, i["a"], rep, False)

    def body(i):
        a = i["a"]
        d = data.Duration(**kw)
        r = build(data, fmt, reps, a, d, a + d if fmt == 1 else None)
        s = data.TimeRecurrence.__str__(r)
        r2 = RP.parse(s)
        k = reps if reps is not None else 3
        return r, s, r2, (r2 == r), take(r, k), take(r2, k)

    def post(i, out):
        if out[0] != "ok":
            return [("str(r) parses back", False)]
        r, s, r2, eq, p1, p2 = out[1]
        obs = [("parse(str(r)) == r", bool(eq)), ("same number of points", len(p1) == len(p2))]
        for x, y in zip(p1, p2):
            obs.append(("same points", same_point_z3(x, y)))
        return obs

    def case_of(v, i):
        return {"check": "text", "mode": mode, "fmt": fmt, "reps": reps, "iv": iv, "a": case_point(v, rep, 0, False, "sym", "sym")}

    return sym_run("text[%s,fmt%d,R%s,%s,%s,%s]" % (mode, fmt, reps, iv, rep, ranges), make, pre, body, post, case_of, ranges=ranges,
                   engine_opts={"fork_span": 2}, scenarios=lambda i: {"text round trip": True},
                   bounds={"interval": iv, "repetitions": reps, "years": "0000..8999"}, sample_every=100)


# ---------------------------------------------------------------------------
def replay(case, M):
    data = M.data
    mode = case["mode"]
    data.CALENDAR.set_mode(mode)
    try:
        kw = IV[case["iv"]]
        d = data.Duration(**kw)
        if case["check"] == "text":
            akw = dict(case["a"])
            akw.pop("tod", None)
            a = data.TimePoint(**akw)
            r = build(data, case["fmt"], case["reps"], a, d, a + d if case["fmt"] == 1 else None)
            P = M.parsers
            try:
                r2 = P.TimeRecurrenceParser(P.TimePointParser(), P.DurationParser()).parse(str(r))
            except Exception as exc:
                return True, "parse(%r) raised %s: %s" % (str(r), type(exc).__name__, exc)
            k = case["reps"] or 3
            bad = not (r2 == r) or [str(x) for x in take(r, k)] != [str(x) for x in take(r2, k)]
            return bad, "parse(str(r)) for r = %s gives %s" % (r, r2)
        if case["check"] == "shift-nominal":
            return _replay_shift_nominal(case, data, mode)
        a = C.build_point(data, case["a"])
        fmt, reps = case["fmt"], case["reps"]
        r = build(data, fmt, reps, a, d, a + d if fmt == 1 else None)
        k = reps if reps is not None else 3
        if case["check"] == "shift":
            s = data.Duration(**case["shift"])
            m = r + s
            sh = s.get_seconds()
            desc = "%s + %s = %s" % (r, s, m)
            if m._repetitions != r._repetitions or not ((m._duration is None and r._duration is None) or m._duration == r._duration):
                return True, desc + " changes repetitions or interval"
            p1, p2 = take(r, k), take(m, k)
            if d.is_exact() and len(p1) != len(p2):
                return True, desc + " has %d points, the original %d" % (len(p2), len(p1))
            if d.is_exact() and any(C.py_instant(mode, y) != C.py_instant(mode, x) + sh for x, y in zip(p1, p2)):
                return True, desc + " does not move every point by d: %s" % [str(x) for x in p2]
            anchor = "_end_point" if fmt == 4 else "_start_point"
            x, y = getattr(r, anchor), getattr(m, anchor)
            if (x is None) != (y is None) or (x is not None and C.py_instant(mode, y) != C.py_instant(mode, x) + sh):
                return True, desc + " does not move the anchor by d"
            if not ((s + r) == m and (r - (-1 * s)) == m):
                return True, desc + " but d + r = %s and r - (-d) = %s" % (s + r, r - (-1 * s))
            if not ((m - s) == r):
                return True, "(%s) - %s = %s != %s" % (m, s, m - s, r)
            return False, desc
        vary = case["vary"]
        if vary == "anchor":
            a2 = a + data.Duration(seconds=case["delta"])
            s = build(data, fmt, reps, a2, d, a2 + d if fmt == 1 else None)
        elif vary == "interval":
            d2 = d + data.Duration(seconds=case["delta"])
            s = build(data, fmt, reps, a, d2, a + d2 if fmt == 1 else None)
        elif vary == "reps":
            s = build(data, fmt, (reps or 3) + 1, a, d, a + d if fmt == 1 else None)
        else:
            a2 = a.to_time_zone(data.TimeZone(hours=case["zh"], minutes=0))
            d2 = data.Duration(hours=kw["hours"] - 24, days=1) if "hours" in kw else data.Duration(hours=24 * kw["days"])
            s = build(data, fmt, reps, a2, d2, a2 + d2 if fmt == 1 else None)
        eq = (r == s)
        if (s == r) != eq or (r != s) == eq:
            return True, "%s vs %s: == / != inconsistent" % (r, s)
        if vary != "respell":
            return eq, "%s == %s is %s although they differ in %s" % (r, s, eq, vary)
        if not eq:
            return True, "%s != %s although they denote the same series" % (r, s)
        if hash(r) != hash(s):
            return True, "%s == %s but their hashes differ" % (r, s)
        i1 = [C.py_instant(mode, x) for x in take(r, k)]
        i2 = [C.py_instant(mode, x) for x in take(s, k)]
        return i1 != i2, "%s and %s iterate %s / %s" % (r, s, i1, i2)
    finally:
        data.CALENDAR.set_mode("gregorian")


def _replay_shift_nominal(case, data, mode):
    a = C.build_point(data, case["a"])
    d = data.Duration(**IV[case["iv"]])
    fmt, reps = case["fmt"], case["reps"]
    r = build(data, fmt, reps, a, d, a + d if fmt == 1 else None)
    s = data.Duration(**case["shift"])
    neg = data.Duration(**{k: -v for k, v in case["shift"].items()})
    names = {1: ("_start_point", "_second_point"), 3: ("_start_point",), 4: ("_end_point",)}[fmt]
    try:
        results = (("r + d", r + s), ("d + r", s + r), ("r - (-d)", r - neg))
    except ValueError as exc:
        inverted = fmt == 1 and C.py_instant(mode, r._start_point + s) > C.py_instant(mode, r._second_point + s)
        return (not inverted), "%s + %s raised %s: %s (moved anchors out of order: %s)" % (r, s, type(exc).__name__, exc, inverted)
    for lab, z in results:
        if z._repetitions != r._repetitions:
            coincide = fmt == 1 and str(r._start_point + s) == str(r._second_point + s)
            if not (coincide and z._repetitions == 1):
                return True, "%s + %s = %s: repetitions changed" % (r, s, z)
        if fmt != 1 and z._duration != r._duration:
            return True, "%s + %s = %s: interval changed" % (r, s, z)
        for name in names:
            want, got = getattr(r, name) + s, getattr(z, name, None)
            if got is None or str(got) != str(want):
                return True, "%s: (%s) with d = %s gives %s, whose %s is %s; the anchor moved by d is %s" % (
                    lab, r, s, z, name[1:], got, want)
    return False, "%s + %s = %s" % (r, s, r + s)


def jobs(tier):
    th = tier == "thorough"
    J = []
    for mode in (C.MODES4 if th else ["gregorian"]):
        last = {"gregorian": 366, "360day": 360, "365day": 365, "366day": 366}[mode]
        A = [{"DOY": (100, 101)}, {"DOY": (last - 2, last)}]
        for fmt in (3, 4, 1):
            for reps in (1, 2, 3, None):
                if fmt == 1 and reps == 1:
                    continue
                for iv in (("PT36H", "P1D", "P1M", "P1Y2D") if fmt != 1 else ("PT36H", "P1D")):
                    for unit, lo, hi in (("hours", -50, 50), ("days", -40, 40)):
                        for a in (A if iv == "PT36H" or th else A[1:]):
                            J.append(("job_shift", dict(mode=mode, fmt=fmt, reps=reps, iv=iv, unit=unit, lo=lo, hi=hi, ranges=a)))
        # shifts by month / year durations (anchors on month ends, calendar form; ordinal day 366 for years)
        for fmt in (3, 4, 1):
            for reps in (1, 3, None):
                if fmt == 1 and reps == 1:
                    continue
                for iv in ("P31D", "P1M") if fmt != 1 else ("P31D", "PT36H"):
                    J.append(("job_shift_nominal", dict(mode=mode, fmt=fmt, reps=reps, iv=iv, unit="months", lo=-3, hi=3,
                                                        ranges={"M": (1, 3), "D": (27, 31)})))
                J.append(("job_shift_nominal", dict(mode=mode, fmt=fmt, reps=reps, iv="P31D", unit="years", lo=-5, hi=5,
                                                    ranges={"M": (1, 3), "D": (27, 31)})))
                J.append(("job_shift_nominal", dict(mode=mode, fmt=fmt, reps=reps, iv="P1D", unit="years", lo=-5, hi=5, rep="ord",
                                                    ranges={"DOY": (last - 1, last)})))
        for fmt in (3, 4, 1):
            for reps in (2, 3, None):
                for vary in ("anchor", "interval", "reps", "respell"):
                    if vary == "reps" and reps is None:
                        continue
                    for iv in ("PT36H", "P1D"):
                        J.append(("job_equality", dict(mode=mode, fmt=fmt, reps=reps, iv=iv, vary=vary, ranges=A[1])))
        for fmt in (3, 4, 1):
            for reps in (1, 3, None):
                if fmt == 1 and reps == 1:
                    continue
                for iv in ("PT36H", "P1M") if fmt != 1 else ("PT36H",):
                    J.append(("job_text", dict(mode=mode, fmt=fmt, reps=reps, iv=iv, rep="cal", ranges={"M": (1, 3), "y0": (0, 8)})))
                    J.append(("job_text", dict(mode=mode, fmt=fmt, reps=reps, iv=iv, rep="ord", ranges={"DOY": (last - 6, last), "y0": (0, 8)})))
    return J


def job_weight(fn, kw):
    return 20 if kw.get("vary") == "respell" else 10


INFO = {
    "explanation": "C14: r + d, d + r and r - (-d) for recurrences in the three notations (1-3 repetitions and unbounded, incl. "
                   "single-point recurrences; intervals PT36H, P1D, P1M, P1Y2D) and a symbolic exact shift: same repetitions and "
                   "interval, anchor point(s) moved by exactly d (exact intervals: every point), (r + d) - d == r; recurrences "
                   "that differ in anchor, interval or repetitions are unequal; the same series spelt in another zone and other "
                   "units is ==, has equal hash keys and the same instants; str(r) (a string with symbolic digits) parses back "
                   "through the real TimeRecurrenceParser to a recurrence == r with the same points.",
    "bounds": {"quick": {"anchors": "ordinal days 364-366 (PT36H also 100-101), any year, offsets +-3:59, any whole-second time",
                         "shifts": "hours -50..50, days -40..40; month shifts -3..3 and year shifts -5..5 from calendar anchors 27-31 Jan-Mar (intervals P31D, PT36H, P1M) and year shifts from ordinal days 365-366: every given anchor of r + d, d + r, r - (-d) equals anchor + d as TimePoint addition computes it; start/end notation: one repetition when the moved anchors coincide, a ValueError refusal exactly when they are out of order", "differences": "anchor / interval moved by 1..5000 s; repetitions +1",
                         "respelling": "anchor in another whole-hour zone (+-3), PT36H as P1DT12H, P1D as PT24H", "mode": "gregorian"},
               "thorough": {"modes": "all 4", "anchors": "both windows for every interval"}},
    "outside": ["text round trip for week-date anchors and for anchors outside Jan-Mar / days 360-366", "more than 3 repetitions / points",
                "min_point/max_point"],
    "assumptions": ["hash(): structural key of the tuple the real __hash__ builds"],
}
NEEDS_STRING_VALIDATION = True
REQUIRED_SCENARIOS = {"all": ["text round trip", "shift fmt1", "shift fmt3", "shift fmt4", "single-point recurrence", "negative shift",
                              "vary:anchor", "vary:interval", "vary:reps", "vary:respell"]}
