"""C07 -- the parser decodes every documented date-time form to exactly its fields.

The expression forms are read from the repository's own tables
(parser_spec.DATE_EXPRESSIONS / TIME_EXPRESSIONS / TIME_ZONE_EXPRESSIONS) on
every run; for each form a string of that shape with symbolic digits and signs
goes through the real TimePointParser.parse (get_info, get_date_info,
get_time_info, get_time_zone_info, process_time_zone_info,
_create_timepoint_from_info, TimePoint.__init__); its regexes are interpreted on
the symbolic string by the regex shim.
"""
import z3

import refmodel as R
from symx import core, strs
from symx.core import lift, conc, SymInt
from symx.harness import sym_run, new_result
from symx.strs import SymStr, z3_str_eq
from . import common as C
from .c03 import install_range_summary, install_weeks_summary

PROPERTY = "C07"
L = lift
M = core.MOps
NEEDS_STRING_VALIDATION = True
DECIMALS = ["5", "25", "125", "0", "50", "000001", "00005"]         # dyadic or tiny: float arithmetic on them is exact


def tokenize(expr, kind):
    """expression of the library's notation -> tokens"""
    out = []
    i = 0
    while i < len(expr):
        rest = expr[i:]
        if kind == "date":
            if rest.startswith("+X"):
                out.append(("sign", None))
                out.append(("X", None))
                i += 2
                continue
            for tok in ("CC", "YY", "MM", "DDD", "DD", "Www"):
                if rest.startswith(tok):
                    out.append((tok, None))
                    i += len(tok)
                    break
            else:
                if rest[0] == "D":
                    out.append(("D", None))
                elif rest[0] == "z":
                    out.append(("z", None))
                else:
                    out.append(("lit", rest[0]))
                i += 1
            continue
        if kind == "time":
            for tok in ("hh", "mm", "ss"):
                if rest.startswith(tok):
                    out.append((tok, None))
                    i += 2
                    break
            else:
                if rest[:3] in (",ii", ".ii", ",nn", ".nn", ",tt", ".tt"):
                    out.append(("dec", rest[0] + rest[1:3]))
                    i += 3
                else:
                    out.append(("lit", rest[0]))
                    i += 1
            continue
        # zone
        if rest[0] == "+":
            out.append(("zsign", None))
            i += 1
        elif rest.startswith("hh"):
            out.append(("zhh", None))
            i += 2
        elif rest.startswith("mm"):
            out.append(("zmm", None))
            i += 2
        else:
            out.append(("lit", rest[0]))
            i += 1
    return out


WIDTH = {"CC": 2, "YY": 2, "MM": 2, "DDD": 3, "DD": 2, "Www": 2, "D": 1, "z": 1, "hh": 2, "mm": 2, "ss": 2, "zhh": 2, "zmm": 2}


SAMPLE = {"CC": 20, "YY": 4, "MM": 2, "DDD": 60, "DD": 29, "Www": 9, "D": 7, "z": 4, "hh": 23, "mm": 59, "ss": 58,
          "zhh": 5, "zmm": 30, "X": 0, "sign": 0, "zsign": 0}


def build(e, toks, tag, ned, dec, focus=None):
    """-> (string elements, {token: symbolic value}); tokens outside `focus`
    (when given) carry the concrete SAMPLE value"""
    els, vals = [], {}
    for k, (t, a) in enumerate(toks):
        if focus is not None and t not in focus and t not in ("lit", "dec"):
            v = SAMPLE[t]
            vals[t] = v
            if t in ("sign", "zsign"):
                els.append("+")
            elif t == "X":
                els.extend("0" * ned)
            else:
                els.extend(("W" if t == "Www" else "") + ("%0*d" % (WIDTH[t], v)))
            continue
        if t == "lit":
            els.append(a)
        elif t in ("sign", "zsign"):
            sg = e.var("%s%s" % (tag, t), 0, 1)             # 0 '+', 1 '-'
            els.append(43 + 2 * sg if type(sg) is SymInt else chr(43 + 2 * sg))
            vals[t] = sg
        elif t == "X":
            v = 0
            for j in range(ned):
                ch, d = strs.digit(e, "%sX%d" % (tag, j))
                els.append(ch)
                v = v * 10 + d
            vals["X"] = v
        elif t == "dec":
            els.append(a[0])
            els.extend(dec)
            vals["dec"] = (a[1:], dec)
        else:
            if t == "Www":
                els.append("W")
            v = 0
            for j in range(WIDTH[t]):
                ch, d = strs.digit(e, "%s%s%d" % (tag, t, j))
                els.append(ch)
                v = v * 10 + d
            vals[t] = v
    return els, vals


def text_of(vals, toks, tag, ned, dec, focus=None):
    out = []
    for t, a in toks:
        if focus is not None and t not in focus and t not in ("lit", "dec"):
            v = SAMPLE[t]
            out.append("+" if t in ("sign", "zsign") else ("0" * ned if t == "X" else ("W" if t == "Www" else "") + "%0*d" % (WIDTH[t], v)))
            continue
        if t == "lit":
            out.append(a)
        elif t in ("sign", "zsign"):
            out.append("-" if vals.get("%s%s" % (tag, t)) else "+")
        elif t == "X":
            out.append("".join(str(vals["%sX%d" % (tag, j)]) for j in range(ned)))
        elif t == "dec":
            out.append(a[0] + dec)
        else:
            out.append(("W" if t == "Www" else "") + "".join(str(vals["%s%s%d" % (tag, t, j)]) for j in range(WIDTH[t])))
    return "".join(out)


def expected(dv, tv, zv, cfg):
    """spelled fields -> expected TimePoint state (rep, year, f1, f2, h, mi, s, tzh, tzm) with the documented defaults"""
    g = dv.get
    year = 0
    if "CC" in dv:
        year = year + 100 * dv["CC"]
    if "YY" in dv:
        year = year + dv["YY"]
    if "X" in dv:
        year = year + 10000 * dv["X"]
    neg = dv.get("sign")
    if "DDD" in dv:
        rep, f1, f2 = "ord", dv["DDD"], None
    elif "Www" in dv:
        rep, f1, f2 = "week", dv["Www"], g("D", 1)
    else:
        rep, f1, f2 = "cal", g("MM", 1), g("DD", 1)
    return rep, year, neg, f1, f2


def job_form(ctx, mode, dexpr, texpr, zexpr, cfg, dec="5", ranges=None, focus=None):
    """focus=None: every digit symbolic, restricted (z3 precondition) to valid
    assignments -- the decoding obligation.  focus=<token set>: only those
    tokens symbolic (the others carry fixed valid values), no precondition --
    the accepted <=> valid obligation around the legal ranges."""
    data, parsers = ctx.data, ctx.parsers
    C.set_mode(data, mode)
    install_range_summary(data, mode)
    install_weeks_summary(data, mode)
    # fractions such as .000001 are not short dyadic numbers: the sum "integer part + fraction" is modelled in exact
    # rational arithmetic (the real code rounds it to a double); reset by the runner before every job
    core.LONG_FRACTIONS[0] = float("0." + dec).as_integer_ratio()[1] > 2 ** 30
    ned = cfg.get("num_expanded_year_digits", 2)
    PARSER = parsers.TimePointParser(**cfg)
    dt, tt, zt = tokenize(dexpr, "date"), tokenize(texpr or "", "time"), tokenize(zexpr or "", "zone")
    assumed = cfg.get("assumed_time_zone")

    def make(e):
        de, dv = build(e, dt, "d", ned, dec, focus)
        te, tv = build(e, tt, "t", ned, dec, focus)
        ze, zv = build(e, zt, "z", ned, dec, focus)
        els = de + (["T"] + te + ze if texpr is not None else [])
        return {"els": els, "dv": dv, "tv": tv, "zv": zv}

    def pre(i):
        if focus is not None:
            return None
        return valid_z3(i)

    def body(i):
        s = SymStr.make(i["els"])
        p = PARSER.parse(s, dump_as_parsed=True)
        return s, p, data.TimePoint.__str__(p)

    def oracle(i):
        dv, tv, zv = i["dv"], i["tv"], i["zv"]
        rep, year, neg, f1, f2 = expected(dv, tv, zv, cfg)
        # a negative sign flips the year (the sign variable is 0/1)
        h, mi, s = tv.get("hh", 0), tv.get("mm", 0), tv.get("ss", 0)
        zh, zm = zv.get("zhh", 0), zv.get("zmm", 0)
        return rep, year, neg, f1, f2, h, mi, s, zh, zm

    def valid_z3(i):
        rep, year, neg, f1, f2, h, mi, s, zh, zm = oracle(i)
        tv = i["tv"]

        def v1(y):
            d_ok = {"cal": R.valid_cal, "ord": R.valid_ord, "week": R.valid_week}[rep](M, mode, y, *([f1] if f2 is None else [f1, f2]))
            t_ok = R.valid_time(M, h, mi, s, allow24="dec" not in tv)
            return core.zbool(M.And(d_ok, t_ok, zh <= 99, zm <= 59))[0]
        zv_ = i["zv"]
        zz = z3.BoolVal(True)
        if type(zv_.get("zsign")) is SymInt:
            # "-00:00" (negative zero offset) is not a distinct offset: its canonical text is "+00:00"
            zz = z3.Not(z3.And(L(zv_["zsign"]) == 1, L(zh) == 0, L(zm) == 0))
        if type(neg) is SymInt:
            nz = z3.Not(z3.And(L(neg) == 1, L(year) == 0))
            return z3.And(zz, nz, z3.If(L(neg) == 1, v1(-year), v1(year)))
        return z3.And(zz, v1(-year if neg else year))
        nz = z3.BoolVal(True)
        if type(neg) is SymInt:
            # "-0...0" (negative zero) is not a distinct year: its canonical text is "+0...0"
            nz = z3.Not(z3.And(L(neg) == 1, L(year) == 0))
            return z3.And(nz, z3.If(L(neg) == 1, v1(-year), v1(year)))
        return v1(-year if neg else year)

    def post(i, out):
        rep, year, neg, f1, f2, h, mi, s, zh, zm = oracle(i)
        tv, zv = i["tv"], i["zv"]

        def both(fn):
            """obligation built for both year signs when a sign character is present"""
            if neg is None or type(neg) is not SymInt:
                y = -year if neg else year
                return fn(y, 1 if not neg else -1)
            return z3.And(z3.Implies(L(neg) == 0, fn(year, 1)), z3.Implies(L(neg) == 1, fn(-year, -1)))

        zneg = zv.get("zsign")

        def valid(y, _):
            d_ok = {"cal": R.valid_cal, "ord": R.valid_ord, "week": R.valid_week}[rep](M, mode, y, *([f1] if f2 is None else [f1, f2]))
            t_ok = R.valid_time(M, h, mi, s, allow24=True)
            if "dec" in tv:
                # a decimal fraction is not allowed on top of hour 24 / minute, second 60
                t_ok = M.And(R.valid_time(M, h, mi, s, allow24=False))
            z_ok = M.And(zh <= 99, zm <= 59)
            return core.zbool(M.And(d_ok, t_ok, z_ok))[0]

        if out[0] == "exc":
            exc = out[1]
            obs = [("refusal is a ValueError subclass", isinstance(exc, ValueError))]
            if isinstance(exc, ValueError):
                obs.append(("every valid assignment of this documented form is accepted", z3.Not(both(valid))))
            return obs
        if out[0] != "ok":
            return [("no exception", False)]
        text, p, dumped = out[1]
        if p._truncated:
            return [("not truncated", False)]
        if C.rep_of(p) != rep:
            return [("representation as written", False)]
        obs = [("only valid field assignments are accepted", both(valid))]

        def fields(y, _):
            cs = [L(p._year) == L(y)]
            got = C.fields_of(p, rep)[1:]
            want = [f1] if f2 is None else [f1, f2]
            cs += [L(a) == L(b) for a, b in zip(got, want)]
            return z3.And(cs)
        obs.append(("date fields are the spelled values (defaults: period start)", both(fields)))
        # time of day
        if "dec" not in tv:
            tcs = [L(p._hour_of_day) == L(h)]
            tcs.append(L(p._minute_of_hour) == L(mi) if p._minute_of_hour is not None else z3.BoolVal(False))
            tcs.append(L(p._second_of_minute) == L(s) if p._second_of_minute is not None else z3.BoolVal(False))
            obs.append(("time fields are the spelled values (defaults: zero)", z3.And(tcs)))
        else:
            kind, digs = tv["dec"]
            frac_n, frac_d = int(digs), 10 ** len(digs)
            unit = {"ii": p._hour_of_day, "nn": p._minute_of_hour, "tt": p._second_of_minute}[kind]
            base = {"ii": h, "nn": mi, "tt": s}[kind]
            if type(unit) is core.SymRatio:
                # |unit - (base + 0.digits)| < 1e-9 in integers (a double is not exactly the decimal it was read from)
                x = L(unit.num) * frac_d - (L(base) * frac_d + frac_n) * unit.den
                ok = z3.And(x * 10 ** 9 < unit.den * frac_d, -x * 10 ** 9 < unit.den * frac_d)
            elif isinstance(unit, float) and not isinstance(base, SymInt):
                ok = abs(unit - (base + frac_n / frac_d)) < 1e-9
            else:
                ok = z3.And(L(unit) == L(base), frac_n == 0) if frac_n == 0 else False
            obs.append(("the decimal fraction lands on the last given unit", ok))
            lower = {"ii": (p._minute_of_hour, p._second_of_minute), "nn": (p._second_of_minute,), "tt": ()}[kind]
            obs.append(("units below the decimal one are absent", all(x is None for x in lower)))
            higher = {"ii": [], "nn": [(p._hour_of_day, h)], "tt": [(p._hour_of_day, h), (p._minute_of_hour, mi)]}[kind]
            obs.append(("higher time units are the spelled values", z3.And([L(a) == L(b) for a, b in higher] or [z3.BoolVal(True)])))
        # zone
        tz = p._time_zone
        if zexpr:
            if zexpr == "Z":
                obs.append(("Z is UTC", z3.And(L(tz._hours) == 0, L(tz._minutes) == 0)))
            else:
                sgn = z3.If(L(zneg) == 1, -1, 1) if type(zneg) is SymInt else (-1 if zneg else 1)
                obs.append(("zone is the spelled signed offset", z3.And(L(tz._hours) == sgn * L(zh), L(tz._minutes) == sgn * L(zm))))
            obs.append(("zone known", tz._unknown is False))
        else:
            if assumed is not None:
                obs.append(("missing zone resolved to the assumed offset", z3.And(L(tz._hours) == assumed[0], L(tz._minutes) == assumed[1])))
            elif cfg.get("default_to_unknown_time_zone"):
                obs.append(("missing zone defaults to UTC", z3.And(L(tz._hours) == 0, L(tz._minutes) == 0)))
        # dump_as_parsed reproduces the input (up to trailing zeros of a decimal); negative zero
        # ("-000000" years, "-00:00" offsets) has the canonical text "+..." and is excluded
        canon = z3.BoolVal(True)
        if type(neg) is SymInt:
            canon = z3.And(canon, z3.Not(z3.And(L(neg) == 1, L(year) == 0)))
        if type(zneg) is SymInt:
            canon = z3.And(canon, z3.Not(z3.And(L(zneg) == 1, L(zh) == 0, L(zm) == 0)))
        if "dec" in tv and tv["dec"][1].rstrip("0") != tv["dec"][1]:
            digs = tv["dec"][1]
            trimmed = digs.rstrip("0") or "0"
            want = SymStr.make(_replace_tail(i["els"], tt, zt, digs, trimmed))
            obs.append(("dump_as_parsed reproduces the input up to trailing zeros", z3.Implies(canon, z3_str_eq(dumped, want))))
        else:
            obs.append(("dump_as_parsed reproduces the input", z3.Implies(canon, z3_str_eq(dumped, text))))
        return obs

    def case_of(v, i):
        txt = text_of(v, dt, "d", ned, dec, focus)
        if texpr is not None:
            txt += "T" + text_of(v, tt, "t", ned, dec, focus) + text_of(v, zt, "z", ned, dec, focus)
        return {"check": "form", "mode": mode, "cfg": cfg, "text": txt, "expr": [dexpr, texpr, zexpr]}

    name = "form[%s|%s|%s|%s,%s%s]" % (dexpr, texpr, zexpr, _cfgname(cfg), mode, ",dec=" + dec if texpr and "," in texpr or texpr and "." in texpr else "")
    if focus is not None:
        name += "{focus %s}" % "+".join(sorted(focus))
    return sym_run(name, make, pre, body, post, case_of, ranges=ranges, engine_opts={"fork_span": 2} if "W" not in dexpr else {"fork_span": 16, "fork_span7": 30},
                   scenarios=lambda i: {"form parsed": True, "expanded year form": "X" in i["dv"], "week form": "Www" in i["dv"],
                                        "ordinal form": "DDD" in i["dv"], "decimal time": "dec" in i["tv"],
                                        "zone given": bool(zexpr), "zone missing": not zexpr and texpr is not None,
                                        "reduced date": texpr is None},
                   bounds={"date": dexpr, "time": texpr, "zone": zexpr, "config": _cfgname(cfg)}, sample_every=50)


def _replace_tail(els, tt, zt, digs, trimmed):
    """the input elements with the decimal digit run `digs` replaced by `trimmed`"""
    els = list(els)
    n = len(digs)
    for k in range(len(els) - n, -1, -1):
        if all(not isinstance(c, SymInt) for c in els[k:k + n]) and "".join(els[k:k + n]) == digs and k > 0 and els[k - 1] in ",.":
            return els[:k] + list(trimmed) + els[k + n:]
    return els


def _cfgname(cfg):
    return ",".join("%s=%s" % (k[:6], v) for k, v in sorted(cfg.items())) or "default"


TRUNC_PROP = {"YY": "year_of_century", "z": "year_of_decade", "MM": "month_of_year", "DD": "day_of_month", "DDD": "day_of_year",
              "Www": "week_of_year", "D": "day_of_week", "hh": "hour_of_day", "mm": "minute_of_hour", "ss": "second_of_minute"}
SAFE = {"YY": (0, 99), "z": (0, 9), "MM": (1, 12), "DD": (1, 28), "DDD": (1, 365), "Www": (1, 52), "D": (1, 7),
        "hh": (0, 23), "mm": (0, 59), "ss": (0, 59), "zhh": (0, 99), "zmm": (0, 59)}


def job_trunc(ctx, dexpr, texpr, zexpr, fmtkey):
    """truncated forms (allow_truncated=True): a string of the form's shape with
    symbolic digits decodes to exactly the spelled truncated properties, the
    zone is unknown unless given, and dump_as_parsed reproduces the input"""
    data, parsers = ctx.data, ctx.parsers
    C.set_mode(data, "gregorian")
    install_range_summary(data, "gregorian")
    install_weeks_summary(data, "gregorian")
    PARSER = parsers.TimePointParser(allow_truncated=True, default_to_unknown_time_zone=True)
    dt, tt, zt = tokenize(dexpr, "date"), tokenize(texpr or "", "time"), tokenize(zexpr or "", "zone")

    def make(e):
        de, dv = build(e, dt, "d", 2, "5")
        te, tv = build(e, tt, "t", 2, "5")
        ze, zv = build(e, zt, "z", 2, "5")
        return {"els": de + (["T"] + te + ze if texpr is not None else []), "dv": dv, "tv": tv, "zv": zv}

    def in_safe(i):
        cs = []
        for vals in (i["dv"], i["tv"], i["zv"]):
            for t, v in vals.items():
                if t in SAFE and type(v) is SymInt:
                    cs.append(z3.And(L(v) >= SAFE[t][0], L(v) <= SAFE[t][1]))
        zv = i["zv"]
        if type(zv.get("zsign")) is SymInt:
            cs.append(z3.Not(z3.And(L(zv["zsign"]) == 1, L(zv.get("zhh", 0)) == 0, L(zv.get("zmm", 0)) == 0)))
        return z3.And(cs) if cs else z3.BoolVal(True)

    def body(i):
        s = SymStr.make(i["els"])
        p = PARSER.parse(s, dump_as_parsed=True)
        return s, p, data.TimePoint.__str__(p)

    def post(i, out):
        safe = in_safe(i)
        if out[0] == "exc":
            exc = out[1]
            obs = [("refusal is a ValueError subclass", isinstance(exc, ValueError))]
            if isinstance(exc, ValueError):
                obs.append(("every always-valid assignment of this truncated form is accepted", z3.Not(safe)))
            return obs
        if out[0] != "ok":
            return [("no exception", False)]
        text, p, dumped = out[1]
        if not p._truncated:
            return [("a truncated time point", False)]
        props = p.get_truncated_properties()
        want = {}
        for vals in (i["dv"], i["tv"]):
            for t, v in vals.items():
                if t in TRUNC_PROP:
                    want[TRUNC_PROP[t]] = v
        obs = [("exactly the spelled fields are reported", sorted(props) == sorted(want))]
        if sorted(props) == sorted(want):
            cs = []
            for k, v in want.items():
                g = props[k]
                if "dec" in i["tv"] and k == {"ii": "hour_of_day", "nn": "minute_of_hour", "tt": "second_of_minute"}[i["tv"]["dec"][0]]:
                    continue
                cs.append(L(g) == L(v))
            obs.append(("with the spelled values", z3.And(cs) if cs else True))
        tz = p._time_zone
        zv = i["zv"]
        if zexpr:
            zneg = zv.get("zsign")
            if zexpr == "Z":
                obs.append(("Z is UTC and known", z3.And(L(tz._hours) == 0, L(tz._minutes) == 0, z3.BoolVal(tz._unknown is False))))
            else:
                sgn = z3.If(L(zneg) == 1, -1, 1) if type(zneg) is SymInt else 1
                obs.append(("zone is the spelled offset and known", z3.And(L(tz._hours) == sgn * L(zv.get("zhh", 0)),
                                                                         L(tz._minutes) == sgn * L(zv.get("zmm", 0)),
                                                                         z3.BoolVal(tz._unknown is False))))
        else:
            obs.append(("zone unknown unless given", tz._unknown is True))
        obs.append(("dump_as_parsed reproduces the input", z3.Implies(safe, z3_str_eq(dumped, text))))
        return obs

    def case_of(v, i):
        txt = text_of(v, dt, "d", 2, "5")
        if texpr is not None:
            txt += "T" + text_of(v, tt, "t", 2, "5") + text_of(v, zt, "z", 2, "5")
        return {"check": "trunc", "mode": "gregorian", "text": txt, "expr": [dexpr, texpr, zexpr]}

    return sym_run("trunc[%s|%s|%s]" % (dexpr, texpr, zexpr), make, None, body, post, case_of,
                   engine_opts={"fork_span": 2} if "W" not in dexpr else None,
                   scenarios=lambda i: {"truncated form": True, "truncated with zone": bool(zexpr), "truncated without zone": not zexpr},
                   bounds={"date": dexpr, "time": texpr, "zone": zexpr, "format": fmtkey}, sample_every=50)


def job_reject(ctx, cfg, kind):
    """a parser restricted to basic notation refuses every extended-only form;
    basic dates are never combined with extended times or vice versa"""
    data, parsers, spec = ctx.data, ctx.parsers, ctx.parser_spec
    res = new_result("reject[%s,%s]" % (kind, _cfgname(cfg)))
    P = parsers.TimePointParser(**cfg)
    import re as _re

    def sample(expr, kind_):
        toks = tokenize(expr, kind_)
        out = []
        for t, a in toks:
            if t == "lit":
                out.append(a)
            elif t in ("sign", "zsign"):
                out.append("+")
            elif t == "X":
                out.append("0" * cfg.get("num_expanded_year_digits", 2))
            elif t == "dec":
                out.append(a[0] + "5")
            else:
                val = {"CC": "20", "YY": "04", "MM": "02", "DDD": "060", "DD": "29", "Www": "W09", "D": "7", "z": "4",
                       "hh": "23", "mm": "59", "ss": "58", "zhh": "05", "zmm": "30"}[t]
                out.append(val)
        return "".join(out)
    get = parsers.TimePointParser.get_expressions
    dates = {f: [x for x in get(spec.DATE_EXPRESSIONS[f]["complete"])] for f in ("basic", "extended")}
    times = {f: [x for x in get(spec.TIME_EXPRESSIONS[f]["complete"])] + [x for x in get(spec.TIME_EXPRESSIONS[f]["reduced"])] for f in ("basic", "extended")}
    cases = []
    if kind == "only_basic":
        for d in dates["extended"]:
            if d not in dates["basic"]:
                cases.append(sample(d, "date"))
                cases.append(sample(d, "date") + "T" + sample("hh:mm:ss", "time") + "Z")
        for d in dates["basic"]:
            for t in times["extended"]:
                if ":" in t:
                    cases.append(sample(d, "date") + "T" + sample(t, "time") + "Z")
    else:
        for d in dates["basic"]:
            for t in times["extended"]:
                if ":" in t:
                    cases.append(sample(d, "date") + "T" + sample(t, "time") + "Z")
        for d in dates["extended"]:
            if "-" in d[1:]:
                for t in times["basic"]:
                    if len(t) > 2 and ":" not in t and t[:4] == "hhmm":
                        cases.append(sample(d, "date") + "T" + sample(t, "time") + "Z")
    for txt in cases:
        res["obligations"] += 1
        res["paths"] += 1
        try:
            P.parse(txt)
            res["candidates"].append({"label": "%s must be refused" % kind, "how": "concrete",
                                      "case": {"check": "reject", "cfg": cfg, "text": txt, "mode": "gregorian"}})
        except ValueError:
            res["discharged"] += 1
            res["trivially"] += 1
    res["nontrivial_paths"] = len(cases)
    res["scenarios"]["refusals:" + kind] = {"texts": cases[:5]}
    res["notes"].append("concrete enumeration over the form tables (one sample text per form)")
    return res


# ---------------------------------------------------------------------------
def replay(case, M_):
    data, parsers = M_.data, M_.parsers
    mode = case.get("mode", "gregorian")
    data.CALENDAR.set_mode(mode)
    try:
        cfg = dict(case.get("cfg", {}))
        if cfg.get("assumed_time_zone") is not None:
            cfg["assumed_time_zone"] = tuple(cfg["assumed_time_zone"])
        # prelude: parsers of the other configurations coexist in one process (as in the check's workers and in real
        # programs: the CLI, DurationParser and the dumper each build their own TimePointParser)
        for other in ({}, {"num_expanded_year_digits": 0}, {"num_expanded_year_digits": 3}, {"allow_only_basic": True},
                      {"allow_truncated": True}):
            parsers.TimePointParser(**other)
        P = parsers.TimePointParser(**cfg)
        txt = case["text"]
        if case["check"] == "reject":
            try:
                p = P.parse(txt)
                return True, "parse(%r) with %s accepted: %s" % (txt, cfg, p)
            except ValueError:
                return False, "refused"
        if case["check"] == "trunc":
            return _replay_trunc(case, parsers)
        dexpr, texpr, zexpr = case["expr"]
        ned = cfg.get("num_expanded_year_digits", 2)
        # decode the text independently by position
        import re
        m = _independent_decode(txt, dexpr, texpr, zexpr, ned)
        exp_valid = m is not None and _py_valid(mode, m)
        try:
            p = P.parse(txt, dump_as_parsed=True)
        except ValueError as exc:
            return bool(exp_valid), "parse(%r) refused (%s); spelled fields valid: %s" % (txt, type(exc).__name__, exp_valid)
        except Exception as exc:
            return True, "parse(%r) raised %s: %s" % (txt, type(exc).__name__, exc)
        if not exp_valid:
            return True, "parse(%r) accepted an invalid field assignment: %s" % (txt, p)
        got = {"year": p._year, "rep": C.rep_of(p), "f": list(C.fields_of(p))[1:], "h": p._hour_of_day,
               "mi": p._minute_of_hour, "s": p._second_of_minute, "tz": (p._time_zone._hours, p._time_zone._minutes)}
        bad = []
        if got["year"] != m["year"] or got["rep"] != m["rep"] or got["f"] != m["f"]:
            bad.append("date %s vs spelled %s" % ((got["year"], got["rep"], got["f"]), (m["year"], m["rep"], m["f"])))
        for k in ("h", "mi", "s"):
            if m[k] is None:
                if got[k] is not None:
                    bad.append("%s should be absent" % k)
            elif got[k] is None or abs(got[k] - m[k]) > 1e-9:
                bad.append("%s = %s vs spelled %s" % (k, got[k], m[k]))
        if m["tz"] is not None and got["tz"] != m["tz"]:
            bad.append("zone %s vs spelled %s" % (got["tz"], m["tz"]))
        if m["tz"] is None and cfg.get("assumed_time_zone") is not None and got["tz"] != tuple(cfg["assumed_time_zone"]):
            bad.append("zone %s vs assumed %s" % (got["tz"], cfg["assumed_time_zone"]))
        dumped = str(p)
        want = txt
        mm = re.search(r"([,.])(\d*?)(0+)(?=(Z|[-+]\d|$))", txt)
        if mm and "T" in txt and mm.start() > txt.index("T"):
            want = txt[:mm.start(2)] + (mm.group(2) or "0") + txt[mm.end(3):]
        if dumped != want:
            bad.append("dump_as_parsed gives %r" % dumped)
        return bool(bad), "parse(%r) = %s: %s" % (txt, p, "; ".join(bad) or "ok")
    finally:
        data.CALENDAR.set_mode("gregorian")


def _replay_trunc(case, parsers):
    txt = case["text"]
    dexpr, texpr, zexpr = case["expr"]
    P = parsers.TimePointParser(allow_truncated=True, default_to_unknown_time_zone=True)
    pos = 0
    want, zone, safe = {}, None, True
    zsign = 1
    for kind, expr in (("date", dexpr), ("time", texpr), ("zone", zexpr)):
        if expr is None:
            continue
        if kind == "time":
            pos += 1
        for t, a in tokenize(expr or "", kind):
            if t == "lit":
                pos += 1
            elif t == "zsign":
                zsign = -1 if txt[pos] == "-" else 1
                pos += 1
            elif t == "dec":
                pos += 1
                while pos < len(txt) and txt[pos].isdigit():
                    pos += 1
                want.pop({"ii": "hour_of_day", "nn": "minute_of_hour", "tt": "second_of_minute"}[a[1:]], None)
            else:
                w = WIDTH[t] + (1 if t == "Www" else 0)
                v = int(txt[pos + (1 if t == "Www" else 0):pos + w])
                pos += w
                if t in TRUNC_PROP:
                    want[TRUNC_PROP[t]] = v
                if t in SAFE and not (SAFE[t][0] <= v <= SAFE[t][1]):
                    safe = False
                if t == "zhh":
                    zone = (zsign * v, (zone or (0, 0))[1])
                if t == "zmm":
                    zone = ((zone or (0, 0))[0], zsign * v)
    if zexpr == "Z":
        zone = (0, 0)
    try:
        p = P.parse(txt, dump_as_parsed=True)
    except ValueError as exc:
        return bool(safe), "parse(%r) refused: %s" % (txt, exc)
    except Exception as exc:
        return True, "parse(%r) raised %s: %s" % (txt, type(exc).__name__, exc)
    props = p.get_truncated_properties() or {}
    bad = []
    for k, v in want.items():
        if props.get(k) != v:
            bad.append("%s = %s, spelled %s" % (k, props.get(k), v))
    if zone is None and not p.time_zone.unknown:
        bad.append("zone should be unknown")
    if zone is not None and (p.time_zone.unknown or (p.time_zone.hours, p.time_zone.minutes) != zone):
        bad.append("zone %s/%s unknown=%s, spelled %s" % (p.time_zone.hours, p.time_zone.minutes, p.time_zone.unknown, zone))
    if safe and str(p) != txt and not (zone == (0, 0) and zsign == -1):
        bad.append("dump_as_parsed gives %r" % str(p))
    return bool(bad), "parse(%r) -> %s: %s" % (txt, props, "; ".join(bad) or "ok")


def _independent_decode(txt, dexpr, texpr, zexpr, ned):
    pos = 0
    out = {}
    def take(n):
        nonlocal pos
        s = txt[pos:pos + n]
        pos += n
        return s
    for kind, expr in (("date", dexpr), ("time", texpr), ("zone", zexpr)):
        if expr is None:
            continue
        if kind == "time":
            if take(1) != "T":
                return None
        if not expr:
            continue
        for t, a in tokenize(expr, kind):
            if t == "lit":
                if take(1) != a:
                    return None
            elif t in ("sign", "zsign"):
                out[t] = -1 if take(1) == "-" else 1
            elif t == "X":
                out["X"] = int(take(ned))
            elif t == "dec":
                take(1)
                j = pos
                while j < len(txt) and txt[j].isdigit():
                    j += 1
                out["dec"] = (a[1:], txt[pos:j])
                pos = j
            else:
                s = take(WIDTH[t] + (1 if t == "Www" else 0))
                out[t] = int(s[1:] if t == "Www" else s)
    year = (out.get("X", 0) * 10000 + out.get("CC", 0) * 100 + out.get("YY", 0)) * out.get("sign", 1)
    if "DDD" in out:
        rep, f = "ord", [out["DDD"]]
    elif "Www" in out:
        rep, f = "week", [out["Www"], out.get("D", 1)]
    else:
        rep, f = "cal", [out.get("MM", 1), out.get("DD", 1)]
    h, mi, s = out.get("hh", 0), out.get("mm", 0), out.get("ss", 0)
    if "dec" in out:
        k, digs = out["dec"]
        fr = float("0." + digs)
        if k == "ii":
            h, mi, s = h + fr, None, None
        elif k == "nn":
            mi, s = mi + fr, None
        else:
            s = s + fr
    tz = None
    if zexpr:
        tz = (0, 0) if zexpr == "Z" else (out.get("zsign", 1) * out.get("zhh", 0), out.get("zsign", 1) * out.get("zmm", 0))
    return {"year": year, "rep": rep, "f": f, "h": h, "mi": mi, "s": s, "tz": tz, "dec": "dec" in out}


def _py_valid(mode, m):
    P_ = R.PyOps
    ok = {"cal": R.valid_cal, "ord": R.valid_ord, "week": R.valid_week}[m["rep"]](P_, mode, m["year"], *m["f"])
    h, mi, s = m["h"], m["mi"] or 0, m["s"] or 0
    if m["dec"]:
        tok = 0 <= h < 24 and 0 <= mi < 60 and 0 <= s < 60
    else:
        tok = R.valid_time(P_, h, mi, s)
    zok = m["tz"] is None or (abs(m["tz"][0]) <= 99 and abs(m["tz"][1]) <= 59)
    return bool(ok and tok and zok)


def form_tables(ctx_or_spec, parsers):
    spec = ctx_or_spec
    get = parsers.TimePointParser.get_expressions
    T = {}
    for fmt in ("basic", "extended"):
        T[fmt] = {
            "date_complete": list(get(spec.DATE_EXPRESSIONS[fmt]["complete"])),
            "date_reduced": list(get(spec.DATE_EXPRESSIONS[fmt]["reduced"])),
            "time": list(get(spec.TIME_EXPRESSIONS[fmt]["complete"])) + list(get(spec.TIME_EXPRESSIONS[fmt]["reduced"])),
            "zone": list(get(spec.TIME_ZONE_EXPRESSIONS[fmt])),
        }
    return T


def jobs(tier):
    """the form tables are imported from the pristine package only to enumerate
    jobs; each job re-reads them through the instrumented loader"""
    th = tier == "thorough"
    import importlib
    import os
    import sys
    repo = os.environ.get("VERIF_REPO", "/repo")
    sys.path.insert(0, repo)
    for m in [k for k in sys.modules if k.startswith("metomi")]:
        del sys.modules[m]
    spec = importlib.import_module("metomi.isodatetime.parser_spec")
    parsers = importlib.import_module("metomi.isodatetime.parsers")
    T = form_tables(spec, parsers)
    get = parsers.TimePointParser.get_expressions
    TR = {f: {"date": list(get(spec.DATE_EXPRESSIONS[f]["truncated"])), "time": list(get(spec.TIME_EXPRESSIONS[f]["truncated"]))}
          for f in ("basic", "extended")}
    for m in [k for k in sys.modules if k.startswith("metomi")]:
        del sys.modules[m]
    sys.path.remove(repo)
    J = []
    base = {"assumed_time_zone": (0, 0)}

    def rg(d):
        # week forms with expanded years: mod-7 arithmetic over six decimal digits is slow in z3
        # (and over four digits it still brings z3 to its per-query time limit now and then, depending on the
        # seed): week forms are decoded for the years 2000-2099; week arithmetic for every year is C03's subject
        if "W" in d and "X" in d:
            return {"dX0": (0, 0), "dX1": (0, 0), "dX2": (0, 0), "dCC0": (2, 2), "dCC1": (0, 0)}
        if "W" in d:
            return {"dCC0": (2, 2), "dCC1": (0, 0)}
        return None
    for fmt in ("basic", "extended"):
        t = T[fmt]
        full_t = t["time"][0]
        full_z = [z for z in t["zone"] if "mm" in z][0]
        for d in t["date_complete"]:
            for k, tx in enumerate(t["time"]):
                zones = [None] + t["zone"]
                for z in zones:
                    # quick: the full date x time x zone product for the hh[:]mm[:]ss form, every other time form with
                    # no zone and Z, the hh and hh[:]mm forms with every zone
                    if not th and not (k == 0 or z in (None, "Z") or tx in ("hh", "hh:mm", "hhmm")):
                        continue
                    if not th and "W" in d and not (k == 0 or z is None):
                        continue        # week forms are the slow ones (mod-7 over decimal digits)
                    isdec = "," in tx or "." in tx
                    decs = DECIMALS if (th and isdec) else DECIMALS[:1]
                    if not th and isdec and z is None and d == t["date_complete"][0]:
                        decs = ["5", "000001", "00005"]     # fractions below 1e-4 (their float repr switches to exponent notation)
                    for dec in decs:
                        J.append(("job_form", dict(mode="gregorian", dexpr=d, texpr=tx, zexpr=z or "", cfg=base, dec=dec, ranges=rg(d))))
            J.append(("job_form", dict(mode="gregorian", dexpr=d, texpr=None, zexpr=None, cfg=base, ranges=rg(d))))
            # accepted <=> valid around the legal ranges (no precondition): date tokens, then time + zone tokens
            dtoks = sorted({t_ for t_, _ in tokenize(d, "date") if t_ not in ("lit", "X", "sign")})
            J.append(("job_form", dict(mode="gregorian", dexpr=d, texpr=full_t, zexpr=full_z, cfg=base, focus=dtoks, ranges=rg(d))))
            J.append(("job_form", dict(mode="gregorian", dexpr=d, texpr=full_t, zexpr=full_z, cfg=base,
                                       focus=["hh", "mm", "ss", "zhh", "zmm", "zsign"])))
        for d in t["date_reduced"]:
            J.append(("job_form", dict(mode="gregorian", dexpr=d, texpr=None, zexpr=None, cfg=base, ranges=rg(d))))
            dtoks = sorted({t_ for t_, _ in tokenize(d, "date") if t_ not in ("lit", "X", "sign")})
            J.append(("job_form", dict(mode="gregorian", dexpr=d, texpr=None, zexpr=None, cfg=base, focus=dtoks)))
    # parser configurations
    cfgs = [{"assumed_time_zone": (5, 30)}, {"assumed_time_zone": (-3, -30)}, {"default_to_unknown_time_zone": True},
            {"assumed_time_zone": (0, 0), "num_expanded_year_digits": 3}, {"assumed_time_zone": (0, 0), "allow_only_basic": True},
            {"assumed_time_zone": (0, 0), "allow_truncated": True},
            # both zone options at once: the assumed offset takes precedence (the documented order)
            {"assumed_time_zone": (5, 30), "default_to_unknown_time_zone": True},
            {"assumed_time_zone": (-3, -30), "default_to_unknown_time_zone": True, "allow_truncated": True}]
    for cfg in cfgs:
        for d, tx, z in (("CCYYMMDD", "hhmmss", ""), ("+XCCYYDDD", "hhmm", "+hhmm"), ("CCYYWwwD", "hh", "Z"),
                         ("CCYY-MM-DD", "hh:mm:ss", ""), ("+XCCYY-Www-D", "hh:mm", "+hh:mm"), ("CCYY-DDD", "hh:mm:ss,tt", "Z")):
            if cfg.get("allow_only_basic") and ("-" in d[1:] or ":" in tx):
                continue
            J.append(("job_form", dict(mode="gregorian", dexpr=d, texpr=tx, zexpr=z, cfg=cfg, ranges=rg(d))))
    for mode in ("360day", "365day", "366day"):
        for d, tx, z in (("CCYYMMDD", "hhmmss", "Z"), ("CCYY-DDD", "hh:mm:ss", "+hh:mm"), ("CCYY-Www-D", "hh:mm", "")):
            J.append(("job_form", dict(mode=mode, dexpr=d, texpr=tx, zexpr=z, cfg=base)))
            dtoks = sorted({t_ for t_, _ in tokenize(d, "date") if t_ not in ("lit", "X", "sign")})
            J.append(("job_form", dict(mode=mode, dexpr=d, texpr=tx, zexpr=z, cfg=base, focus=dtoks)))
    for fmt in ("basic", "extended"):
        tr_dates = TR[fmt]["date"]
        tr_times = TR[fmt]["time"]
        full_times = T[fmt]["time"]
        zones = T[fmt]["zone"]
        for d in tr_dates:
            J.append(("job_trunc", dict(dexpr=d, texpr=None, zexpr=None, fmtkey=fmt)))
            for tx in ([full_times[0], "hh"] if not th else full_times):
                for z in ("", "Z", zones[-1]):
                    J.append(("job_trunc", dict(dexpr=d, texpr=tx, zexpr=z, fmtkey=fmt)))
        for tx in tr_times + ["hh", full_times[0]]:
            for z in [""] + zones:
                J.append(("job_trunc", dict(dexpr="", texpr=tx, zexpr=z, fmtkey=fmt)))
    J.append(("job_reject", dict(cfg={"assumed_time_zone": (0, 0), "allow_only_basic": True}, kind="only_basic")))
    J.append(("job_reject", dict(cfg={"assumed_time_zone": (0, 0)}, kind="mixed")))
    return J


def job_weight(fn, kw):
    return 5 + (10 if kw.get("dexpr", "").startswith("+X") else 0) + (10 if "W" in kw.get("dexpr", "") else 0)


INFO = {
    "explanation": "C07: for every complete and reduced date form x time form x zone form that the library's own tables define "
                   "(read on each run), a string of that shape with symbolic digits and signs is parsed by the real parser. "
                   "Per path: accepted <=> the spelled fields are a valid date-time of the mode (this also decides C09's "
                   "'impossible dates via each text notation' clause); on acceptance the TimePoint carries exactly the spelled "
                   "year (sign, expanded digits, century, year), date fields in the representation written, time fields with the "
                   "decimal fraction on the last unit, the spelled signed zone or the configured default, lower-order fields at "
                   "the period start; str(parse(s, dump_as_parsed=True)) == s up to trailing zeros of a decimal. Basic-only "
                   "parsers and basic/extended mixing are checked on one sample text per form (concrete).",
    "bounds": {"quick": {"forms": "all 12 complete date forms x the hhmmss/hh:mm:ss form x all zone spellings; every other time form (incl. decimals ,5 / .5) with no zone and Z; the decimal forms also with the fractions ,000001 and ,00005 on the first calendar form; hh and hhmm forms with every zone; all reduced date forms; 6 parser configurations x 6 forms; 3 other calendar modes x 3 forms",
                         "digits": "decoding: every digit symbolic, restricted to valid assignments (years 0000-9999, +-000000..999999; week forms: 2000-2099 and +-002000..+-002099 only); accepted<=>valid: the date tokens (00-99 / 000-999 incl. invalid values) or the time and zone tokens symbolic with the other tokens fixed", "excluded": "negative zero: '-000000' years and '-00:00' offsets (their canonical text is '+...')", "decimals": "concrete fraction digits 5, 25"},
               "thorough": {"forms": "the full date x time x zone cross product", "decimals": "5, 25, 125, 0, 50, 000001"}},
    "outside": ["truncated forms combined with every time form (quick: the hh[:]mm[:]ss and hh forms and the truncated time forms)",
                "decimal fractions with symbolic or non-dyadic digits (floating point)", "strings that are not instances of a documented form (C09 text clause)",
                "the local-system default zone (covered by C18's get_local_time_zone)"],
    "assumptions": ["the regex shim interprets the library's own patterns; validated against re on every run",
                    "fractions that are not short dyadic numbers (,000001 ,00005): 'integer part + fraction' is modelled in exact rational arithmetic where the real code rounds to a double; the field obligation allows 1e-9",
                    "get_days_in_year_range and get_weeks_in_year run as their closed forms (C03)"],
}
REQUIRED_SCENARIOS = {"all": ["truncated form", "truncated with zone", "truncated without zone", "form parsed", "expanded year form", "week form", "ordinal form", "decimal time", "zone given",
                              "zone missing", "reduced date", "refusals:only_basic", "refusals:mixed"]}
