"""C04 -- subtracting time points inverts addition.

Real code: TimePoint.__sub__(TimePoint) (incl. its `other > self` recursion
through _cmp), to_time_zone, get_ordinal_date, get_hour_minute_second,
Duration.__init__/__mul__/__rmul__/__eq__, and __add__ for the round trips.
"""
import z3

import refmodel as R
from refmodel import PyOps as P
from symx import core
from symx.core import lift, conc
from symx.harness import sym_run
from . import common as C
from .c03 import install_range_summary

PROPERTY = "C04"
L = lift


def dur_obligations(d, expect_seconds):
    """d is an exact Duration in days/h/m/s, single-signed, normalised, of the
    expected length (z3 term)"""
    if d is None or type(d).__name__ != "Duration":
        return [("result is a Duration", False)]
    if d._weeks is not None:
        return [("days/hours/minutes/seconds form (not weeks)", False)]
    parts = (d._years, d._months, d._days, d._hours, d._minutes, d._seconds)
    if any(x is None for x in parts) or not C.is_int_typed(*parts):
        return [("numeric components", False)]
    y, mo, dd, h, mi, s = [L(x) for x in parts]
    return [("no years or months", z3.And(y == 0, mo == 0)),
            ("one sign throughout", z3.Or(z3.And(dd >= 0, h >= 0, mi >= 0, s >= 0),
                                          z3.And(dd <= 0, h <= 0, mi <= 0, s <= 0))),
            ("|h| < 24, |m| < 60, |s| < 60", z3.And(h > -24, h < 24, mi > -60, mi < 60, s > -60, s < 60)),
            ("length is the signed distance of the instants",
             ((dd * 24 + h) * 60 + mi) * 60 + s == expect_seconds)]


def rezoned_input(e, data, src, tag, rep, tz_of):
    """fresh symbolic point `src re-expressed in tz_of's zone` (same rep);
    tied to src by the precondition (C06's contract for to_time_zone)"""
    y = src._year + e.var("dy" + tag, -1, 1)
    if rep == "cal":
        f1, f2 = e.var("M" + tag, 1, 12), e.var("D" + tag, 1, 31)
    elif rep == "ord":
        f1, f2 = e.var("DOY" + tag, 1, 366), None
    else:
        f1, f2 = e.var("W" + tag, 1, 53), e.var("WD" + tag, 1, 7)
    return C.raw_point(data, y, rep, f1, f2, e.var("h" + tag, 0, 23), e.var("mi" + tag, 0, 59),
                       e.var("se" + tag, 0, 59), tz_of._time_zone._hours, tz_of._time_zone._minutes)


def job_sub(ctx, mode, ra, rb, ranges=None, tzh=(-14, 14), near=(-1, 1), pins=None, anti=False, back=False,
            K=C.KWIDE, contract=False, samezone=False, tzm=(-59, 59), dec=None):
    """contract=True: TimePoint.to_time_zone(b -> a's zone) and (a -> b's zone)
    are replaced by their C06 contract: a fresh symbolic point of the same
    representation in the destination zone, valid, with the same instant."""
    data = ctx.data
    C.set_mode(data, mode)
    install_range_summary(data, mode)
    holder = {}

    def make(e):
        a = C.point_input(e, data, "a", ra, tzh=tzh, K=K, tzm=tzm, hmax=23 if (dec and "a" in dec) else 24)
        b = C.point_input(e, data, "b", rb, tzh=tzh, K=K, tzm=tzm, hmax=23 if (dec and "b" in dec) else 24)
        if near is not None:
            b._year = a._year + e.var("dy", near[0], near[1])
        if samezone:
            b._time_zone = C.raw_timezone(data, a._time_zone._hours, a._time_zone._minutes)
        i = {"a": a, "b": b}
        if dec:
            # decimal precision forms (hh,ii / hh:mm,nn with a dyadic fraction): validity is stated on the hh:mm:ss
            # state the form is derived from
            from .c02 import _decimalise
            i["pre"] = z3.And(C.m_valid_point(mode, a, ra, True), C.m_valid_point(mode, b, rb, True))
            for tag, (form, frac) in dec.items():
                _decimalise(i[tag], form, frac)
        if contract:
            i["b2"] = rezoned_input(e, data, b, "b2", rb, a)
            i["a2"] = rezoned_input(e, data, a, "a2", ra, b)
        return i

    def inst(p, rep):
        if dec:
            from .c02 import _instant_any
            return _instant_any(mode, p, rep)
        return C.m_instant(mode, p, rep)

    def pre(i):
        if dec:
            return i["pre"]
        cs = [C.m_valid_point(mode, i["a"], ra, True), C.m_valid_point(mode, i["b"], rb, True)]
        if contract:
            cs += [C.m_valid_point(mode, i["b2"], rb, False), C.m_valid_point(mode, i["a2"], ra, False),
                   L(C.m_instant(mode, i["b2"], rb)) == L(C.m_instant(mode, i["b"], rb)),
                   L(C.m_instant(mode, i["a2"], ra)) == L(C.m_instant(mode, i["a"], ra))]
        return z3.And(cs)

    real_ttz = data.TimePoint.to_time_zone

    def ttz(self, dest):
        i = holder["i"]
        if self is i["b"] and dest is i["a"]._time_zone:
            return i["b2"]
        if self is i["a"] and dest is i["b"]._time_zone:
            return i["a2"]
        return real_ttz(self, dest)

    def body(i):
        a, b = i["a"], i["b"]
        holder["i"] = i
        if contract:
            data.TimePoint.to_time_zone = ttz
        try:
            o = {"d": a - b}
            if anti:
                o["rev"] = b - a
                o["anti_eq"] = (o["d"] == -1 * o["rev"])
        finally:
            data.TimePoint.to_time_zone = real_ttz
        if back:
            o["back"] = b + o["d"]
        return o

    def post(i, out):
        if out[0] != "ok":
            return [("no exception", False)]
        a, b, o = i["a"], i["b"], out[1]
        ia, ib = L(inst(a, ra)), L(inst(b, rb))
        obs = dur_obligations(o["d"], ia - ib)
        if anti:
            obs += [("b - a " + lab, ob) for lab, ob in dur_obligations(o["rev"], ib - ia)]
            obs.append(("(a - b) == -(b - a)", bool(o["anti_eq"])))
        if back:
            r = o["back"]
            if C.rep_of(r) != rb:
                obs.append(("b + (a - b) keeps b's representation", False))
            else:
                obs += [("b + (a - b) is a valid point", C.m_valid_point(mode, r, rb, False)),
                        ("b + (a - b) has a's instant", L(C.m_instant(mode, r, rb)) == ia),
                        ("b + (a - b) stays in b's zone", C.z_same_zone(b, r))]
        return obs

    def case_of(v, i):
        pa, pb = C.point_case(v, "a", ra), C.point_case(v, "b", rb)
        if near is not None:
            pb["year"] = C.year_value(v, "a") + v["dy"]
        if samezone:
            pb["time_zone_hour"], pb["time_zone_minute"] = pa["time_zone_hour"], pa["time_zone_minute"]
        for tag, kw in (("a", pa), ("b", pb)):
            if dec and tag in dec:
                form, frac = dec[tag]
                kw.pop("second_of_minute")
                if form == "hdec":
                    kw.pop("minute_of_hour")
                    kw["hour_of_day_decimal"] = frac
                else:
                    kw["minute_of_hour_decimal"] = frac
        return {"check": "sub", "mode": mode, "a": pa, "b": pb}

    def zsc(i):
        a, b = i["a"], i["b"]
        ia, ib = L(inst(a, ra)), L(inst(b, rb))
        if dec:
            return {"decimal-form operand, a earlier": ia < ib, "decimal-form operand, a later": ia > ib}
        return {"24:00 operand": z3.Or(L(a._hour_of_day) == 24, L(b._hour_of_day) == 24),
                "a earlier than b": ia < ib, "a later than b": ia > ib, "same instant, different zones":
                    z3.And(ia == ib, L(a._time_zone._hours) != L(b._time_zone._hours))}

    return sym_run("sub[%s,%s/%s,%s,near=%s,%s%s%s%s]" % (mode, ra, rb, ranges, near, pins, ",anti" if anti else "",
                                                         ",back" if back else "", (",contract" if contract else "") +
                                                         (",samezone" if samezone else "") + (",tzm=%s" % (tzm,) if tzm != (-59, 59) else "") +
                                                         (",dec=%s" % (dec,) if dec else "")),
                   make, pre, body, post, case_of, scenarios_z3=zsc, ranges=ranges, pins=pins,
                   scenarios=lambda i: {"negative year": conc(i["a"]._year) < 0, "reps:%s/%s" % (ra, rb): True},
                   bounds={"years": "K in %s" % (K,), "offset hours": list(tzh), "year distance": near or "any", "pins": pins,
                           "to_time_zone": "C06 contract" if contract else "real code", "same zone": samezone, "offset minutes": list(tzm)},
                   sample_every=500)


def job_sub_decimal_hour(ctx, mode, hh, ff, ranges=None):
    """a is written as hh,ff hours with a *non-dyadic* two-digit fraction: its time of day is a concrete Python float, so the
    library's own float arithmetic on it (hour -> minute -> second split) runs for real; the dates, the shared UTC
    offset and b's whole-second time are symbolic.  The float enters the symbolic differences as the exact rational it
    is.  Obligations: the field ranges of a - b and b - a (strict: |s| < 60), one sign, and the length within a
    microsecond of the distance of the instants (a's time taken as the decimal number written)."""
    data = ctx.data
    C.set_mode(data, mode)
    install_range_summary(data, mode)
    us_a = (hh * 100 + ff) * 36000000        # a's time of day in microseconds, exactly
    # stated assumption: once the library's float split of hh,ff has produced its (float) second, the few additions and
    # subtractions of small integers that follow are taken as exact (their rounding is < 1e-13 s, far below both the
    # microsecond tolerance and the distance of any such second from 0 or 60, which is a multiple of ulp(hh.ff * 3600) ~ 1e-11)
    core.LONG_FRACTIONS[0] = True

    def make(e):
        a = C.point_input(e, data, "a", "ord", tzh=(-14, 14), hmax=23)
        b = C.point_input(e, data, "b", "ord", tzh=(-14, 14), hmax=23)
        b._year = a._year + e.var("dy", -1, 1)
        b._time_zone = C.raw_timezone(data, a._time_zone._hours, a._time_zone._minutes)
        i = {"a": a, "b": b, "pre": z3.And(C.m_valid_point(mode, a, "ord", False), C.m_valid_point(mode, b, "ord", False))}
        a._hour_of_day = hh + float("0.%02d" % ff)       # what the constructor builds for hour_of_day_decimal
        a._minute_of_hour = a._second_of_minute = None
        return i

    def pre(i):
        return i["pre"]

    def body(i):
        a, b = i["a"], i["b"]
        return {"d": a - b, "rev": b - a}

    def obligations(d, lab, expect_us):
        parts = (d._years, d._months, d._days, d._hours, d._minutes, d._seconds)
        if d._weeks is not None or any(x is None for x in parts):
            return [(lab + ": days/hours/minutes/seconds form", False)]
        y, mo, dd, h, mi, sec = parts
        zb = lambda c: core.zbool(c)[0]
        total_us = (((dd * 24 + h) * 60 + mi) * 60 + sec) * 1000000
        err = total_us - expect_us
        return [(lab + ": no years or months", z3.And(zb(y == 0), zb(mo == 0))),
                (lab + ": one sign throughout", z3.Or(z3.And(zb(dd >= 0), zb(h >= 0), zb(mi >= 0), zb(sec >= 0)),
                                                      z3.And(zb(dd <= 0), zb(h <= 0), zb(mi <= 0), zb(sec <= 0)))),
                (lab + ": |h| < 24, |m| < 60, |s| < 60", z3.And(zb(h > -24), zb(h < 24), zb(mi > -60), zb(mi < 60), zb(sec > -60), zb(sec < 60))),
                (lab + ": length within a microsecond of the distance of the instants", z3.And(zb(err <= 1), zb(err >= -1)))]

    def post(i, out):
        if out[0] != "ok":
            return [("no exception", False)]
        a, b, o = i["a"], i["b"], out[1]
        day_a = C.m_daynum(mode, "ord", C.fields_of(a, "ord"))
        day_b = C.m_daynum(mode, "ord", C.fields_of(b, "ord"))
        tb = b._hour_of_day * 3600 + b._minute_of_hour * 60 + b._second_of_minute
        dist_us = (day_a - day_b) * 86400000000 + us_a - tb * 1000000        # same UTC offset on both sides
        return obligations(o["d"], "a - b", dist_us) + obligations(o["rev"], "b - a", -dist_us)

    def case_of(v, i):
        pa, pb = C.point_case(v, "a", "ord"), C.point_case(v, "b", "ord")
        pb["year"] = C.year_value(v, "a") + v["dy"]
        pb["time_zone_hour"], pb["time_zone_minute"] = pa["time_zone_hour"], pa["time_zone_minute"]
        pa.pop("minute_of_hour"), pa.pop("second_of_minute")
        pa["hour_of_day"], pa["hour_of_day_decimal"] = hh, float("0.%02d" % ff)
        return {"check": "sub-decimal-hour", "mode": mode, "a": pa, "b": pb}

    return sym_run("sub-decimal-hour[%s,%02d,%02d,%s]" % (mode, hh, ff, ranges), make, pre, body, post, case_of, ranges=ranges,
                   scenarios_z3=lambda i: {"non-dyadic decimal hour, b on a whole minute": L(i["b"]._second_of_minute) == 0},
                   bounds={"a": "%02d,%02d hours (concrete float), any ordinal date" % (hh, ff), "b": "whole seconds, same UTC offset, year within +-1"},
                   sample_every=200)


def job_addsub(ctx, mode, rep, unit, nlo, nhi, ranges=None, tzh=(-14, 14)):
    """(p + d) - p == d for exact d"""
    data = ctx.data
    C.set_mode(data, mode)
    install_range_summary(data, mode)
    from .c01 import MULT

    def make(e):
        return {"p": C.point_input(e, data, "", rep, tzh=tzh), "n": e.var("n", nlo, nhi)}

    def pre(i):
        return C.m_valid_point(mode, i["p"], rep, True)

    def body(i):
        d = data.Duration(**{unit: i["n"]})
        q = i["p"] + d
        back = q - i["p"]
        return back, (back == d)

    def post(i, out):
        if out[0] != "ok":
            return [("no exception", False)]
        back, eq = out[1]
        return dur_obligations(back, L(i["n"]) * MULT[unit]) + [("(p + d) - p == d (real ==)", bool(eq))]

    def case_of(v, i):
        return {"check": "addsub", "mode": mode, "p": C.point_case(v, "", rep), "unit": unit, "n": v["n"]}

    return sym_run("addsub[%s,%s,%s,%d..%d,%s]" % (mode, rep, unit, nlo, nhi, ranges), make, pre, body, post, case_of,
                   ranges=ranges, bounds={"amount": [nlo, nhi], "unit": unit, "offset hours": list(tzh)},
                   scenarios=lambda i: {"addsub negative": conc(i["n"]) < 0}, sample_every=300)


# ---------------------------------------------------------------------------
def _len(d):
    return ((d._days * 24 + d._hours) * 60 + d._minutes) * 60 + d._seconds


def _check_dur(d, exp, what):
    if d._weeks is not None or d._years or d._months:
        return "%s = %s is not in days/h/m/s form" % (what, d)
    parts = (d._days, d._hours, d._minutes, d._seconds)
    if not (all(x >= 0 for x in parts) or all(x <= 0 for x in parts)):
        return "%s = %s mixes signs" % (what, d)
    if not (abs(d._hours) < 24 and abs(d._minutes) < 60 and abs(d._seconds) < 60):
        return "%s = %s is not normalised" % (what, d)
    if _len(d) != exp:
        return "%s = %s has length %s s, the instants are %s s apart" % (what, d, _len(d), exp)
    return None


def replay(case, M):
    data = M.data
    mode = case["mode"]
    data.CALENDAR.set_mode(mode)
    try:
        if case["check"] == "sub-decimal-hour":
            from fractions import Fraction
            a, b = C.build_point(data, case["a"]), C.build_point(data, case["b"])
            ka = case["a"]
            ia = C.py_daynum(mode, a) * 86400 + (Fraction(ka["hour_of_day"]) + Fraction(str(ka["hour_of_day_decimal"]))) * 3600
            ib = C.py_daynum(mode, b) * 86400 + b._hour_of_day * 3600 + b._minute_of_hour * 60 + b._second_of_minute
            for lab, d, want in (("a - b", a - b, ia - ib), ("b - a", b - a, ib - ia)):
                desc = "%s for a = %s, b = %s is %s" % (lab, C.describe_point(a), C.describe_point(b), d)
                parts = (d._days, d._hours, d._minutes, d._seconds)
                if d._weeks is not None or d._years or d._months:
                    return True, desc + ": not a days/hours/minutes/seconds duration"
                if not (all(x >= 0 for x in parts) or all(x <= 0 for x in parts)):
                    return True, desc + ": mixed signs"
                if not (abs(d._hours) < 24 and abs(d._minutes) < 60 and abs(d._seconds) < 60):
                    return True, desc + ": a field is outside 0<=h<24, 0<=m<60, 0<=s<60 (seconds = %r)" % (d._seconds,)
                length = ((Fraction(d._days) * 24 + Fraction(d._hours)) * 60 + Fraction(d._minutes)) * 60 + Fraction(d._seconds)
                if abs(length - want) > Fraction(1, 1000000):
                    return True, desc + ": length %s s, the instants are %s s apart" % (float(length), float(want))
            return False, "a - b = %s" % (a - b)
        if case["check"] == "addsub":
            from .c01 import MULT
            p = C.build_point(data, case["p"])
            d = data.Duration(**{case["unit"]: case["n"]})
            back = (p + d) - p
            err = _check_dur(back, case["n"] * MULT[case["unit"]], "(%s + %s) - p" % (C.describe_point(p), d))
            if err is None and not (back == d):
                err = "(%s + %s) - p = %s != d" % (C.describe_point(p), d, back)
            return err is not None, err or "ok"
        a, b = C.build_point(data, case["a"]), C.build_point(data, case["b"])
        ia, ib = C.py_instant(mode, a), C.py_instant(mode, b)
        what = "(%s) - (%s)" % (C.describe_point(a), C.describe_point(b))
        try:
            d, rev = a - b, b - a
        except Exception as exc:
            return True, "%s raised %s: %s" % (what, type(exc).__name__, exc)
        err = _check_dur(d, ia - ib, what) or _check_dur(rev, ib - ia, "reversed " + what)
        if err is None and not (d == -1 * rev):
            err = "%s = %s but reversed = %s" % (what, d, rev)
        if err is None:
            back = b + d
            if C.py_instant(mode, back) != ia or not C.py_valid_point(mode, back) or not (back == a):
                err = "b + (a - b) = %s is not a = %s" % (C.describe_point(back), C.describe_point(a))
        if err is None and ((ia > ib) != (a > b) or (ia == ib) != (a == b)):
            err = "sign of %s disagrees with the comparison" % what
        return err is not None, err or "%s = %s" % (what, d)
    finally:
        data.CALENDAR.set_mode("gregorian")


def sub_windows(ra, rb, th, mode):
    """narrow date windows (each job must stay small: __sub__ multiplies the
    case splits of two comparisons, two zone conversions and the borrow chain)"""
    from .c02 import last_days

    def win(rep, tag):
        if rep == "ord":
            return [{"DOY" + tag: (1, 2)}, {"DOY" + tag: (59, 60)}, {"DOY" + tag: last_days(mode)}]
        if rep == "cal":
            return [{"M" + tag: (1, 1), "D" + tag: (1, 2)}, {"M" + tag: (2, 3), "D" + tag: (1, 1)},
                    {"M" + tag: (12, 12), "D" + tag: (30, 31)}]
        return [{"W" + tag: (1, 1), "WD" + tag: (1, 2)}, {"W" + tag: (9, 9), "WD" + tag: (3, 4)},
                {"W" + tag: (52, 53), "WD" + tag: (6, 7)}]
    out = []
    wa, wb = win(ra, "a"), win(rb, "b")
    for i in range(3):
        for j in range(3):
            if th or i + j == 2:
                d = dict(wa[i])
                d.update(wb[j])
                out.append(d)
    return out


def jobs(tier):
    from .c02 import last_days
    th = tier == "thorough"
    J = []
    # zone configurations: identical zones; whole-hour offsets; minute-only offsets
    SAME, HOURS, MINS = dict(samezone=True, tzh=(-99, 99)), dict(tzm=(0, 0), tzh=(-14, 14)), dict(tzh=(0, 0))
    FULL = dict(tzh=(-14, 14))
    for mode in (C.MODES4 if th else ["gregorian", "360day"]):
        greg = mode == "gregorian"
        J.append(("job_sub", dict(mode=mode, ra="ord", rb="ord", samezone=True, tzh=(-99, 99))))
        plan = [("ord", "ord", [HOURS, MINS] + ([FULL] if th and greg else [])),
                ("cal", "cal", [SAME, HOURS] + ([MINS] if th else []))]
        if greg or th:
            plan += [("cal", "ord", [HOURS] + ([SAME] if th else [])),
                     ("ord", "cal", [SAME] + ([HOURS] if th else []))]
        for ra, rb, zcs in plan:
            for zc in zcs:
                for rg in sub_windows(ra, rb, th and greg and ra == rb, mode):
                    J.append(("job_sub", dict(mode=mode, ra=ra, rb=rb, ranges=rg, **zc)))
        for ka, kb in ((4, 5), (5, -2500), (-1, 0)):
            J.append(("job_sub", dict(mode=mode, ra="ord", rb="ord", near=None, tzm=(0, 0), tzh=(-14, 14),
                                      ranges={"DOYa": (1, 2), "DOYb": last_days(mode)}, pins={"Ka": ka, "Kb": kb})))
        J.append(("job_sub", dict(mode=mode, ra="ord", rb="ord", tzh=(-3, 3), tzm=(0, 0), anti=True,
                                  ranges={"DOYa": (1, 2), "DOYb": last_days(mode)})))
        J.append(("job_sub", dict(mode=mode, ra="ord", rb="ord", tzh=(-3, 3), tzm=(0, 0), back=True, near=(0, 1),
                                  ranges={"DOYa": last_days(mode), "DOYb": (1, 3)})))
        if greg or th:
            # decimal precision forms (dyadic fractions) on either side
            for dec in ({"a": ("hdec", 0.5)}, {"b": ("mdec", 0.25)}, {"a": ("mdec", 0.75), "b": ("hdec", 0.25)}):
                for rg in ({"DOYa": (1, 2), "DOYb": last_days(mode)}, {"DOYa": last_days(mode), "DOYb": (1, 2)}):
                    J.append(("job_sub", dict(mode=mode, ra="ord", rb="ord", ranges=rg, dec=dec, anti=True, samezone=True, tzh=(-99, 99))))
                    J.append(("job_sub", dict(mode=mode, ra="ord", rb="ord", ranges=rg, dec=dec, tzh=(-2, 2), tzm=(0, 0))))
        if greg or th:
            # a written as hh,ff hours with a non-dyadic fraction (the library's float split runs on the real float)
            for hh, ff in ((12, 10), (12, 35), (7, 5), (7, 60), (7, 85), (23, 99), (0, 1), (12, 20), (19, 70)):
                J.append(("job_sub_decimal_hour", dict(mode=mode, hh=hh, ff=ff, ranges={"DOYa": (1, 2), "DOYb": last_days(mode)})))
                J.append(("job_sub_decimal_hour", dict(mode=mode, hh=hh, ff=ff, ranges={"DOYa": last_days(mode), "DOYb": (1, 2), "hb": (0, 12)})))
        if greg or th:
            wz = {("week", "ord"): HOURS, ("ord", "week"): SAME, ("week", "cal"): SAME, ("cal", "week"): HOURS,
                  ("week", "week"): HOURS}
            for (ra, rb), zc in wz.items():
                for res in ((0, 104, 399) if (th and greg) else (104,)):
                    pins = C.residue_pins(res, "a")
                    for rg in sub_windows(ra, rb, False, mode):
                        J.append(("job_sub", dict(mode=mode, ra=ra, rb=rb, ranges=rg, pins=pins, **zc)))
        for unit, lim in (("days", 400), ("hours", 50), ("seconds", 90000)):
            J.append(("job_addsub", dict(mode=mode, rep="ord", unit=unit, nlo=-lim, nhi=lim, tzh=(-3, 3),
                                         ranges={"DOY": (1, 3)})))
            J.append(("job_addsub", dict(mode=mode, rep="ord", unit=unit, nlo=-lim, nhi=lim, tzh=(-3, 3),
                                         ranges={"DOY": last_days(mode)})))
    return J


def job_weight(fn, kw):
    if fn == "job_addsub":
        return 20
    w = 10
    for r in (kw.get("ra"), kw.get("rb")):
        w += {"week": 40, "cal": 25, "ord": 15, None: 0}[r]
    return w


INFO = {
    "explanation": "C04: a - b for two symbolic valid TimePoints in any mix of representations and offsets (incl. 24:00): "
                   "the result is a days/h/m/s Duration with one sign, |h|<24, |m|,|s|<60 whose length is the signed distance "
                   "of the oracle instants; on reduced domains also (a - b) == -(b - a) by the real ==, b + (a - b) lands on "
                   "a's instant in b's zone, and (p + d) - p == d for exact d.",
    "bounds": {"quick": {"years": "first operand -1 000 000..999 999, second within +-1 year (plus far-apart jobs with the 400-year cycle indices pinned to (4,5), (5,-2500), (-1,0))",
                         "offsets": "three zone configurations: both operands in one (any) zone -99:59..+99:59; independent whole-hour offsets -14..+14; independent minute-only offsets -00:59..+00:59",
                         "dates": "same zone: every pair of ordinal dates; otherwise narrow windows (days 1-2, 59-60, last two; 1-2 Jan, 1 Feb/1 Mar, 30-31 Dec; W01-1/2, W09-3/4, W52/53-6/7), first window of a with last of b etc.; week dates with year residue 104 pinned; each representation pair under one or two of the zone configurations",
                         "round trips": "anti-symmetry and b + (a - b): ordinal, first/last days of the year, whole-hour offsets +-3; (p + d) - p: ordinal days 1-3 / last two, d in days +-400, hours +-50, seconds +-90000",
                         "modes": "gregorian, 360day"},
               "thorough": {"modes": "all 4", "offsets": "additionally independent offsets -14:59..+14:59 (ordinal pairs, gregorian)", "dates": "all 9 window pairs for same-representation pairs in gregorian, year residues 0, 104, 399 for week dates"}},
    "outside": ["fractional seconds; decimal forms other than hh,ii / hh:mm,nn with the fractions .25 .5 .75 on ordinal dates around New Year (same zone or whole-hour offsets +-2), which are decided exactly, and nine hh,ff decimal-hour values with non-dyadic fractions (concrete float time of day, symbolic dates / offset / other operand; same UTC offset) for the field ranges and the length within a microsecond", "operands whose offsets differ in both hours and minutes (quick tier); the zone conversion itself is C06's subject", "operand dates outside the stated windows for the mixed-representation pairs",
                "distances of thousands of years other than the three pinned cycle-index pairs"],
    "assumptions": ["get_days_in_year_range runs as its closed form (discharged by C03 in the same source state)",
                    "job_sub_decimal_hour: after the library's own float split of hh,ff into h/m/s (run on the real double), the additions and subtractions of small integers that follow are treated as exact (their rounding is below 1e-13 s)"],
}
REQUIRED_SCENARIOS = {"all": ["decimal-form operand, a earlier", "decimal-form operand, a later", "24:00 operand", "a earlier than b", "a later than b", "same instant, different zones",
                              "negative year", "addsub negative", "non-dyadic decimal hour, b on a whole minute"]}
