"""C19 -- the command line prints exactly what the library computes.

Real code: main.main / main.parse_args (argparse runs on a same-shape concrete
placeholder argv; the positional items and offsets are then replaced by strings
with symbolic digits), DateTimeOperator.process_time_point_str / date_parse /
date_shift / date_format / diff_time_point_strs / date_diff / date_diff_format /
format_duration_str / iter_recurrence_str / strptime / strftime.
Oracle: the same computation done directly through the library API
(TimePointParser.parse, DurationParser.parse, +, -, str), i.e. the functions
whose own contracts are C01-C14's subjects.
"""
import io
import os
import subprocess
import sys

import z3

import refmodel as R
from symx import core, strs
from symx.core import lift, conc, SymInt
from symx.harness import sym_run, new_result
from symx.strs import SymStr, z3_str_eq
from . import common as C
from .c03 import install_range_summary, install_weeks_summary
from .c07 import tokenize, build, text_of

PROPERTY = "C19"
L = lift
NEEDS_STRING_VALIDATION = True


class FakeTimeMod:
    """stands for `time` inside datetimeoper: the stdlib strptime fallback only
    matters for names of days / months, which none of our shapes contain"""

    def __init__(self, real):
        self._real = real

    def strptime(self, s, fmt):
        if type(s) is SymStr:
            # the two stdlib-only formats (ctime, Unix date) need at least 4 blanks and 2 colons
            def could_be(c, ch):
                if not isinstance(c, SymInt):
                    return c == ch
                lo, hi = core.ENG.interval(c.lin, c.c)
                return lo is None or hi is None or lo <= ord(ch) <= hi
            if fmt.count(" ") >= 4 and sum(1 for c in s.els if could_be(c, " ")) < 4:
                raise ValueError("time data does not match format")
            import re as _re
            if not _re.search(r"%[aAbBpZcxX]", fmt):
                # numeric directives only: the text may contain nothing but digits and the format's own literals
                lits = set(_re.sub(r"%.", "", fmt))
                if any((not isinstance(c, SymInt)) and not c.isdigit() and c not in lits for c in s.els):
                    raise ValueError("time data does not match format")
            if any((not isinstance(c, SymInt)) and c.isalpha() and c not in "TZW" for c in s.els):
                raise core.Unsupported("stdlib strptime fallback on a symbolic string with letters")
            raise ValueError("time data does not match format")
        return self._real.strptime(s, fmt)

    def __getattr__(self, n):
        return getattr(self._real, n)


def run_main(ctx, argv_placeholder, items=None, offsets1=None, offsets2=None):
    """run main.main with argparse on the placeholder argv, then the given
    (symbolic) items/offsets substituted into the parsed namespace.
    -> (printed objects, exit argument or None)"""
    mainmod, oper = ctx.main, ctx.datetimeoper
    real_parse = mainmod.parse_args
    printed = []

    def fake_parse(sys_args=None):
        ns = real_parse(argv_placeholder)
        if items is not None:
            ns.items = list(items)
        if offsets1 is not None:
            ns.offsets1 = [o.replace("\\", "") if type(o) is str else o for o in offsets1]
        if offsets2 is not None:
            ns.offsets2 = list(offsets2)
        return ns

    import time as _time
    mainmod.parse_args = fake_parse
    mainmod.print = lambda *a, **k: printed.append(a[0] if len(a) == 1 else a)
    oper.time = FakeTimeMod(_time)
    code = None
    try:
        try:
            mainmod.main(argv_placeholder)
        except SystemExit as exc:
            code = exc.code if exc.code is not None else 0
    finally:
        mainmod.parse_args = real_parse
        mainmod.__dict__.pop("print", None)
        oper.time = _time
    return printed, code


SHAPES = [("CCYY-MM-DD", "hh:mm:ss", "Z"), ("CCYYMMDD", "hhmmss", "+hhmm"), ("CCYY-DDD", "hh:mm", "+hh:mm"), ("CCYY-Www-D", "hh", "Z"),
          ("CCYYMMDD", "hhmm", "Z"), ("CCYY-MM-DD", None, None), ("CCYY-MM-DD", "hh:mm:ss", "")]


def sym_item(e, shape, tag):
    d, t, z = shape
    de, dv = build(e, tokenize(d, "date"), tag + "d", 2, "5")
    els = de
    tv = zv = {}
    if t is not None:
        te, tv = build(e, tokenize(t, "time"), tag + "t", 2, "5")
        ze, zv = build(e, tokenize(z or "", "zone"), tag + "z", 2, "5")
        els = de + ["T"] + te + ze
    return els, dv, tv, zv


def item_text(v, shape, tag):
    d, t, z = shape
    txt = text_of(v, tokenize(d, "date"), tag + "d", 2, "5")
    if t is not None:
        txt += "T" + text_of(v, tokenize(t, "time"), tag + "t", 2, "5") + text_of(v, tokenize(z or "", "zone"), tag + "z", 2, "5")
    return txt


def placeholder(shape):
    return item_text({}, shape, "") if False else None


def job_shift(ctx, shape, offs, utc=False, ranges=None):
    """one date-time item + offsets: printed = library(parse, shift, dump in the input's notation)"""
    data, parsers = ctx.data, ctx.parsers
    C.set_mode(data, "gregorian")
    install_range_summary(data, "gregorian")
    install_weeks_summary(data, "gregorian")
    LIB = parsers.TimePointParser(assumed_time_zone=(0, 0) if utc else None)
    DP = parsers.DurationParser()
    ph_item = {("CCYY-MM-DD", "hh:mm:ss", "Z"): "2000-01-01T00:00:00Z"}.get(shape, "2000-01-01T00:00:00Z")

    def make(e):
        els, dv, tv, zv = sym_item(e, shape, "i")
        amounts = [e.var("off%d" % k, 0, 40) for k in range(len(offs))]
        return {"els": els, "amounts": amounts}

    def offset_strs(i):
        out = []
        for (sgn, unit), n in zip(offs, i["amounts"]):
            body = ["P"] + (["T"] if unit in "HMS" and unit != "m" else []) + list(SymStr.lift(strs.str_of_int(n))) + [unit.upper() if unit != "m" else "M"]
            if unit == "mo":
                body = ["P"] + list(SymStr.lift(strs.str_of_int(n))) + ["M"]
            if unit == "altd":
                # the date-time-like notation P[YYYY]-[MM]-[DD]T[hh]: n days
                body = list("P0000-00-") + strs.digits_of(n, 2) + list("T00")
            out.append(SymStr.make(([sgn] if sgn else []) + body))
        return out

    def body(i):
        item = SymStr.make(i["els"])
        ostrs = offset_strs(i)
        argv = [ph_item] + ["--offset=%sP1D" % (s or "") for s, _ in offs] + (["--utc"] if utc else [])
        printed, code = run_main(ctx, argv, items=[item], offsets1=ostrs)
        # the library pipeline, directly
        try:
            p = LIB.parse(item, dump_as_parsed=True)
        except ValueError as exc:
            return printed, code, ("refused", exc)
        if utc:
            p = p.to_utc()
        for (sgn, unit), o in zip(offs, ostrs):
            dur = DP.parse(o[1:] if sgn else o)
            p = p - dur if sgn == "-" else p + dur
        try:
            return printed, code, ("ok", data.TimePoint.__str__(p))
        except ValueError as exc:       # e.g. the shifted year no longer fits the notation's CCYY
            return printed, code, ("refused", exc)

    def post(i, out):
        if out[0] != "ok":
            return [("no traceback (only SystemExit)", False)]
        printed, code, lib = out[1]
        if lib[0] == "refused":
            return [("an item the library refuses gives a non-zero exit with a message", code not in (None, 0) and not printed)]
        if code not in (None, 0) or len(printed) != 1:
            return [("a valid item prints exactly one line", False)]
        return [("prints the shifted point in the notation it was written in", z3_str_eq(printed[0], lib[1]))]

    def case_of(v, i):
        argv = [item_text(v, shape, "i")]
        for k, (sgn, unit) in enumerate(offs):
            if unit == "altd":
                argv.append("--offset=%sP0000-00-%02dT00" % (sgn or "", v["off%d" % k]))
                continue
            u = {"mo": "M"}.get(unit, unit.upper())
            argv.append("--offset=%sP%s%d%s" % (sgn or "", "T" if unit in ("H", "M", "S") else "", v["off%d" % k], u))
        if utc:
            argv.append("--utc")
        return {"check": "shift", "argv": argv}

    return sym_run("shift[%s,%s%s,%s]" % ("|".join(str(x) for x in shape), offs, ",utc" if utc else "", ranges), make, None, body, post,
                   case_of, ranges=ranges, engine_opts={"fork_span": 2} if "W" not in shape[0] else None,
                   scenarios=lambda i: {"cli single item": True, "negative offset (-P...)": any(s == "-" for s, _ in offs),
                                        "two offsets": len(offs) == 2, "--utc": utc},
                   bounds={"item shape": shape, "offsets": offs, "amounts": "0..99"}, sample_every=100)


def job_diff(ctx, shape1, shape2, total=None, ranges=None):
    """two date-time items: printed = sign + str(duration) with first + d == second; --as-total in H/M/S"""
    data, parsers = ctx.data, ctx.parsers
    C.set_mode(data, "gregorian")
    install_range_summary(data, "gregorian")
    install_weeks_summary(data, "gregorian")
    LIB = parsers.TimePointParser()

    def make(e):
        a = sym_item(e, shape1, "a")
        b = sym_item(e, shape2, "b")
        return {"a": a[0], "b": b[0]}

    def body(i):
        a, b = SymStr.make(i["a"]), SymStr.make(i["b"])
        argv = ["2000-01-01T00:00:00Z", "2000-01-02T00:00:00Z"] + (["--as-total=" + total] if total else [])
        printed, code = run_main(ctx, argv, items=[a, b])
        try:
            p1, p2 = LIB.parse(a), LIB.parse(b)
        except ValueError as exc:
            return printed, code, ("refused", exc)
        if p2 < p1:
            d, sign = p1 - p2, "-"
        else:
            d, sign = p2 - p1, ""
        return printed, code, ("ok", d, sign, p1, p2)

    def post(i, out):
        if out[0] != "ok":
            return [("no traceback (only SystemExit)", False)]
        printed, code, lib = out[1]
        if lib[0] == "refused":
            return [("items the library refuses give a non-zero exit with a message", code not in (None, 0) and not printed)]
        if code not in (None, 0) or len(printed) != 1:
            return [("two valid items print exactly one line", False)]
        _, d, sign, p1, p2 = lib
        got = printed[0]
        if total:
            secs = d.get_seconds()
            if sign:
                secs = -secs
            div = {"S": 1, "M": 60, "H": 3600}[total.upper()]
            if type(got) is core.SymRatio:
                return [("--as-total is the same duration in the requested unit", L(got.num) * div == L(secs) * got.den)]
            return [("--as-total is the same duration in the requested unit", L(got) * div == L(secs))]
        want = SymStr.make(list(sign) + list(SymStr.lift(data.Duration.__str__(d))))
        r1, r2 = C.rep_of(p1), C.rep_of(p2)
        ln = ((L(d._days) * 24 + L(d._hours)) * 60 + L(d._minutes)) * 60 + L(d._seconds)
        i1, i2 = L(C.m_instant("gregorian", p1, r1)), L(C.m_instant("gregorian", p2, r2))
        return [("prints the signed duration the library computes", z3_str_eq(got, want)),
                ("first + d == second", (i1 - ln == i2) if sign else (i1 + ln == i2))]

    def case_of(v, i):
        return {"check": "diff", "argv": [item_text(v, shape1, "a"), item_text(v, shape2, "b")] + (["--as-total=" + total] if total else [])}

    return sym_run("diff[%s,%s,%s,%s]" % ("|".join(map(str, shape1)), "|".join(map(str, shape2)), total, ranges), make, None, body, post,
                   case_of, ranges=ranges, engine_opts={"fork_span": 2},
                   scenarios=lambda i: {"cli two items": True, "--as-total": bool(total)},
                   bounds={"shapes": [shape1, shape2], "as_total": total}, sample_every=100)


def job_recurrence(ctx, fmt, nmax, reps=3, ranges=None):
    """a recurrence item prints its first N points in order, one per line"""
    data, parsers = ctx.data, ctx.parsers
    C.set_mode(data, "gregorian")
    install_range_summary(data, "gregorian")
    install_weeks_summary(data, "gregorian")
    LIB = parsers.TimeRecurrenceParser()
    shape = ("CCYY-MM-DD", "hh", "Z")

    def make(e):
        els, dv, tv, zv = sym_item(e, shape, "r")
        return {"els": els, "reps": reps, "n": e.var("n", 1, 40)}

    def rec_string(i):
        reps = list(SymStr.lift(strs.str_of_int(i["reps"])))
        dur = ["P"] + list(SymStr.lift(strs.str_of_int(i["n"]))) + ["D"]
        if fmt == 3:
            els = ["R"] + reps + ["/"] + i["els"] + ["/"] + dur
        elif fmt == 4:
            els = ["R"] + reps + ["/"] + dur + ["/"] + i["els"]
        else:
            els = ["R", "/"] + i["els"] + ["/"] + dur
        return SymStr.make(els)

    def body(i):
        s = rec_string(i)
        printed, code = run_main(ctx, ["R/2000-01-01T00Z/P1D", "--max=%d" % nmax], items=[s])
        try:
            r = LIB.parse(s)
        except ValueError as exc:
            return printed, code, ("refused", exc)
        pts = []
        for x in r:
            pts.append(data.TimePoint.__str__(x))
            if len(pts) >= nmax:
                break
        return printed, code, ("ok", pts)

    def post(i, out):
        if out[0] != "ok":
            return [("no traceback (only SystemExit)", False)]
        printed, code, lib = out[1]
        if lib[0] == "refused":
            return [("a recurrence the library refuses gives a non-zero exit", code not in (None, 0) and not printed)]
        if code not in (None, 0) or len(printed) != 1:
            return [("a valid recurrence prints once", False)]
        pts = lib[1]
        want = []
        for k, p in enumerate(pts):
            if k:
                want.append("\n")
            want.extend(SymStr.lift(p))
        return [("prints the first N points in order, one per line", z3_str_eq(printed[0], SymStr.make(want)))]

    def case_of(v, i):
        it = item_text(v, shape, "r")
        s = {3: "R%d/%s/P%dD", 4: "R%d/P%dD/%s", 0: "R/%s/P%dD"}[fmt]
        if fmt == 3:
            s = s % (reps, it, v["n"])
        elif fmt == 4:
            s = s % (reps, v["n"], it)
        else:
            s = s % (it, v["n"])
        return {"check": "recurrence", "argv": [s, "--max=%d" % nmax]}

    return sym_run("recurrence[fmt%d,R%d,max=%d,%s]" % (fmt, reps, nmax, ranges), make, None, body, post, case_of, ranges=ranges,
                   engine_opts={"fork_span": 2}, scenarios=lambda i: {"cli recurrence": True},
                   bounds={"notation": fmt, "--max": nmax, "repetitions": "1..9", "interval": "P1D..P40D"}, sample_every=100)


CLI_TEMPLATES = [["2000-01-01T00:00:00Z"], ["20000101T000000+0530"], ["2000-366T23:59"], ["2000-W01-1T12"],
                 ["R3/2000-01-01T00Z/P1D"], ["2000-01-01T00Z", "2000-03-01T06:30Z"]]


def job_cli_garbage(ctx, argv, which, npos):
    """malformed arguments, bounded: the positional item `which` of a valid argument vector with every window of
    `npos` consecutive characters replaced by symbolic printable-ASCII characters.  main() must print exactly one
    result or leave through SystemExit; any other exception is a traceback."""
    data = ctx.data
    C.set_mode(data, "gregorian")
    install_range_summary(data, "gregorian")
    install_weeks_summary(data, "gregorian")
    base = list(argv[which])
    starts = list(range(0, len(base) - npos + 1))

    def make(e):
        return {"pos": e.var("pos", 0, len(starts) - 1), "ch": [e.var("c%d" % k, 32, 126) for k in range(npos)]}

    def body(i):
        st = starts[core.realise(i["pos"])]
        item = SymStr.make(base[:st] + list(i["ch"]) + base[st + npos:])
        items = [a for a in argv]
        items[which] = item
        strs.VALIDITY_ONLY_FLOAT[0] = True
        try:
            return run_main(ctx, list(argv), items=items)
        finally:
            strs.VALIDITY_ONLY_FLOAT[0] = False

    def post(i, out):
        if out[0] == "exc":
            return [("no traceback: main() leaves only by returning or through SystemExit (%s)" % type(out[1]).__name__, False)]
        if out[0] != "ok":
            return [("decided", False)]
        printed, code = out[1]
        if code in (None, 0):
            return [("success prints exactly one result", len(printed) == 1)]
        return [("failure prints nothing to stdout and exits with a message", len(printed) == 0 and not isinstance(code, int) or code != 0)]

    def case_of(v, i):
        st = starts[v["pos"]]
        txt = "".join(base[:st]) + "".join(chr(v["c%d" % k]) for k in range(npos)) + "".join(base[st + npos:])
        a = list(argv)
        a[which] = txt
        return {"check": "malformed_sym", "argv": a}

    return sym_run("cli_garbage[%s,#%d,%d]" % (argv, which, npos), make, None, body, post, case_of,
                   scenarios=lambda i: {"cli garbage": True},
                   bounds={"argv": argv, "mutated item": which, "symbolic window": npos, "code points": [32, 126]}, sample_every=200)


CONCRETE = [
    # (argv, env) -> compared against the library pipeline in a fresh process
    (["2000-02-28T00Z", "--offset=P2D", "--calendar=360day"], {}),
    (["2000-02-28T00Z", "--offset=P2D", "--calendar=365day"], {}),
    (["2000-02-28T00Z", "--offset=P2D", "--calendar=366day"], {}),
    (["2001-02-28T00Z", "--offset=P2D", "--calendar=gregorian"], {}),
    (["2001-02-28T00Z", "--offset=P2D"], {"ISODATETIMECALENDAR": "360day"}),
    (["2001-02-28T00Z", "--offset=P2D", "--calendar=gregorian"], {"ISODATETIMECALENDAR": "360day"}),
    (["ref", "--offset=-PT1H"], {"ISODATETIMEREF": "20371225T000000Z"}),
    (["ref", "--ref=20200101T0000+01", "--offset=PT90M"], {"ISODATETIMEREF": "20371225T000000Z"}),
    (["ref", "20380119T031407Z"], {"ISODATETIMEREF": "20371225T000000Z"}),
    (["20200101T0530+0530", "--utc"], {}),
    (["20200101T0530+0530", "--utc", "--offset=P1M"], {}),
    (["2020-06-15T12:00:00", "--offset=P1D"], {}),
    (["2020-01-31T00Z", "--offset=P1M", "--offset=-P1D", "--print-format=CCYY-DDD"], {}),
    (["2020-03-31T06:00Z", "-u", "--offset=-P0000-01-00T00"], {}), (["2020-03-31T06:00Z", "--offset=-P00000100T00"], {}),
    (["2020-03-31T06:00Z", "--offset=+P0000-00-01T06:30:00"], {}), (["2020-03-31T06:00Z", "--offset=P0001-00-00T00"], {}),
    (["2020-01-01T00Z", "2020-01-01T00Z", "--offset1=-P0000-00-02T00", "--offset2=-P0000-01-00T00"], {}),
    (["2020-01-31T00Z", "-s", "P1M", "-f", "%Y/%m/%d"], {}),
    (["2020-01-01T00Z", "2021-03-01T06:30Z", "--print-format=y,m,d,h,M,s"], {}),
    (["2020-03-01T00Z", "2020-01-01T00Z"], {}),
    (["2020-01-01T00Z", "2020-01-01T00Z", "--offset1=P1D", "--offset2=-PT1H"], {}),
    (["--as-total=H", "P1DT6H"], {}), (["--as-total=m", "PT90S"], {}), (["--as-total=s", "-PT1H"], {}),
    (["R/2020-02-27T00Z/P1D", "--max=4", "--calendar=360day"], {}), (["R3/P1M/2020-03-31T00Z"], {}),
    (["R5/2020/2024"], {}), (["R/P1Y/2020"], {}),
]
MALFORMED = [["2020-01-01T06T00Z"], ["2020-01-01T06:00+01:00+02"], ["2020-01-01T00Z", "2020-01-01T06T00Z"], ["R/2020-01-01T06T00Z/P1D"],
             ["ref", "--ref=2020-01-01T06T00Z"], ["2020-13-01"], ["2020-02-30T00Z"], ["garbage"], ["2020-01-01T00Z", "--offset=PXD"], ["2020-01-01T00Z", "nonsense"],
             ["nonsense", "2020-01-01T00Z"], ["R/2020-01-01T00Z/PXD"], ["R0/2020/P1D"], ["--as-total=H", "PT1X"], ["2020-W54-1"],
             ["2020-01-01T25Z"], ["2020-01-01T00Z", "--offset=P1D", "--offset=foo"], ["Rx/2020/P1D"], ["2020-01-01T00:00:00+25:99x"],
             ["٢٠٢٠-01-01"], ["--as-total=H", "garbage"], ["R/P1D"]]

DRIVER = r'''
import io, contextlib, json, os, sys
argv = json.loads(sys.argv[1]); mode = sys.argv[2]
from metomi.isodatetime.main import main
out, err = io.StringIO(), io.StringIO()
code = 0
tb = False
try:
    with contextlib.redirect_stdout(out), contextlib.redirect_stderr(err):
        main(argv)
except SystemExit as e:
    code = e.code
    if not isinstance(code, (int, type(None))):
        err.write(str(code)); code = 1
    code = code or 0
except BaseException as e:
    tb = True
    err.write("%s: %s" % (type(e).__name__, e)); code = 70
print(json.dumps({"out": out.getvalue(), "err": err.getvalue(), "code": code, "traceback": tb}))
'''


def _cli(argv, env):
    repo = os.environ.get("VERIF_REPO", "/repo")
    e = {k: v for k, v in os.environ.items() if not k.startswith("ISODATETIME")}
    e.update(env)
    e["PYTHONPATH"] = repo
    p = subprocess.run([sys.executable, "-c", DRIVER, __import__("json").dumps(argv), "x"], capture_output=True, text=True,
                       env=e, cwd=repo, timeout=120)
    import json
    try:
        return json.loads(p.stdout.strip().splitlines()[-1])
    except Exception:
        return {"out": p.stdout, "err": p.stderr, "code": p.returncode, "traceback": True}


def _library(argv, env):
    """what the library computes for this argument vector (fresh process, no CLI code)"""
    prog = r'''
import json, sys, os
argv = json.loads(sys.argv[1])
from metomi.isodatetime.data import Calendar
from metomi.isodatetime.parsers import TimePointParser, DurationParser, TimeRecurrenceParser
from metomi.isodatetime.dumpers import TimePointDumper
items = [a for a in argv if not a.startswith("-") or a.startswith("-P")]
opts = {}
k = 0
pos = []
flat = []
i = 0
while i < len(argv):
    a = argv[i]
    if a.startswith("--") and "=" in a:
        flat.append(tuple(a.split("=", 1)))
    elif a in ("-s", "-f", "-p", "-1", "-2", "-R"):
        flat.append(({"-s": "--offset", "-f": "--print-format", "-p": "--parse-format", "-1": "--offset1", "-2": "--offset2", "-R": "--ref"}[a], argv[i + 1])); i += 1
    elif a in ("--utc", "-u"):
        flat.append(("--utc", True))
    else:
        pos.append(a)
    i += 1
get = lambda n: [v for k_, v in flat if k_ == n]
cal = (get("--calendar") or [os.environ.get("ISODATETIMECALENDAR")])[0]
Calendar.default().set_mode(cal)
utc = bool(get("--utc"))
P = TimePointParser(assumed_time_zone=(0, 0) if utc else None); D = DurationParser()
ref = (get("--ref") or [os.environ.get("ISODATETIMEREF")])[0]
def point(s):
    if s == "ref": s = ref
    p = P.parse(s, dump_as_parsed=True)
    return p.to_utc() if utc else p
def shift(p, offs):
    for o in offs:
        sign = "+"
        if o[0] in "+-": sign, o = o[0], o[1:]
        d = D.parse(o)
        p = p - d if sign == "-" else p + d
    return p
tot = get("--as-total")
if len(pos) >= 2:
    p1 = shift(point(pos[0]), get("--offset") + get("--offset1")); p2 = shift(point(pos[1]), get("--offset2"))
    d, sign = (p1 - p2, "-") if p2 < p1 else (p2 - p1, "")
    pf = (get("--print-format") or [None])[0]
    if pf:
        look = {"y": d.years, "m": d.months, "d": d.days, "h": d.hours, "M": d.minutes, "s": d.seconds}
        out = sign + "".join(str(int(look[c])) if c in look and float(look[c]).is_integer() else (str(look[c]) if c in look else c) for c in pf)
    else:
        out = sign + str(d)
    if tot:
        out = str(D.parse(out).get_seconds() / {"S": 1, "M": 60, "H": 3600}[tot[0].upper()])
elif pos and pos[0].startswith("R"):
    r = TimeRecurrenceParser(P, D).parse(pos[0])
    n = int((get("--max") or [10])[0]); pts = []
    for x in r:
        pts.append(str(x))
        if len(pts) >= n: break
    out = "\n".join(pts)
elif pos and tot:
    out = str(D.parse(pos[0]).get_seconds() / {"S": 1, "M": 60, "H": 3600}[tot[0].upper()])
else:
    p = shift(point(pos[0]), get("--offset") + get("--offset1"))
    pf = (get("--print-format") or [None])[0]
    if pf and "%" in pf: out = p.strftime(pf)
    elif pf: out = TimePointDumper().dump(p, pf)
    else: out = str(p)
print(json.dumps({"out": out + "\n"}))
'''
    repo = os.environ.get("VERIF_REPO", "/repo")
    e = {k: v for k, v in os.environ.items() if not k.startswith("ISODATETIME")}
    e.update(env)
    e["PYTHONPATH"] = repo
    import json
    p = subprocess.run([sys.executable, "-c", prog, json.dumps(argv)], capture_output=True, text=True, env=e, cwd=repo, timeout=120)
    try:
        return json.loads(p.stdout.strip().splitlines()[-1])
    except Exception:
        return {"out": None, "err": p.stderr[-500:]}


def job_concrete(ctx):
    """options / environment selectors and malformed arguments (concrete, fresh processes; not a solver verdict)"""
    res = new_result("cli[concrete]")
    for argv, env in CONCRETE:
        res["obligations"] += 1
        res["paths"] += 1
        got, want = _cli(argv, env), _library(argv, env)
        if got["code"] == 0 and want.get("out") is not None and got["out"] == want["out"]:
            res["discharged"] += 1
            res["trivially"] += 1
        else:
            res["candidates"].append({"label": "CLI output equals the library's computation", "how": "concrete",
                                      "case": {"check": "concrete", "argv": argv, "env": env}})
    for argv in MALFORMED:
        res["obligations"] += 1
        res["paths"] += 1
        got = _cli(argv, {})
        if got["code"] not in (0, None) and not got["traceback"] and got["err"].strip() and "Traceback" not in got["err"]:
            res["discharged"] += 1
            res["trivially"] += 1
        else:
            res["candidates"].append({"label": "malformed argument: non-zero exit with a message, no traceback", "how": "concrete",
                                      "case": {"check": "malformed", "argv": argv}})
    res["nontrivial_paths"] = res["paths"]
    res["scenarios"]["cli options and malformed arguments"] = {"vectors": len(CONCRETE) + len(MALFORMED)}
    res["notes"].append("concrete sweep in fresh processes; not a solver verdict")
    return res


# ---------------------------------------------------------------------------
def replay(case, M_):
    k = case["check"]
    if k == "malformed_sym":
        got = _cli(case["argv"], {})
        bad = got["traceback"] or (got["code"] in (0, None) and got["out"].count("\n") < 1)
        return bad, "isodatetime %s -> exit %s, stdout %r, stderr %r, traceback=%s" % (case["argv"], got["code"], got["out"][:80], got["err"][:160], got["traceback"])
    if k == "malformed":
        got = _cli(case["argv"], {})
        bad = not (got["code"] not in (0, None) and not got["traceback"] and got["err"].strip())
        return bad, "isodatetime %s -> exit %s, stderr %r, traceback=%s" % (case["argv"], got["code"], got["err"][:200], got["traceback"])
    env = case.get("env", {})
    got, want = _cli(case["argv"], env), _library(case["argv"], env)
    if want.get("out") is None:
        # the library itself refuses these arguments: the CLI must exit non-zero with a message
        bad = not (got["code"] not in (0, None) and not got["traceback"])
        return bad, "isodatetime %s: library refuses (%s); CLI exit %s" % (case["argv"], want.get("err", "")[-120:], got["code"])
    bad = got["code"] != 0 or got["out"] != want["out"]
    return bad, "isodatetime %s %s printed %r (exit %s); the library computes %r" % (case["argv"], env or "", got["out"], got["code"], want["out"])


def pins_for(tag):
    """keep the symbolic digits near the legal ranges (still including invalid
    values such as month 13-19, day 32-39, hour 24-29, minute 60-69)"""
    base = {"dCC0": (2, 2), "dCC1": (0, 0), "dYY0": (0, 0), "dMM0": (0, 1), "dMM1": (1, 2), "dDD0": (2, 3), "dDDD0": (3, 3),
            "dDDD1": (5, 6), "dWww0": (5, 5), "thh0": (2, 2), "tmm0": (5, 5), "tss0": (5, 5), "zzhh0": (0, 0), "zzmm0": (3, 3),
            "zzmm1": (0, 0)}
    return {tag + k: v for k, v in base.items()}


def jobs(tier):
    th = tier == "thorough"
    J = [("job_concrete", {})]
    OFFS = [[("", "D")], [("-", "H")], [("+", "mo")], [("", "D"), ("-", "S")]]
    for shape in SHAPES:
        d = shape[0]
        rg = {"iMM0": (0, 1)} if "MM" in d else None
        for offs in (OFFS if (th or shape == SHAPES[0]) else OFFS[:2]):
            J.append(("job_shift", dict(shape=shape, offs=offs, ranges=pins_for("i"))))
    # offsets written in the date-time-like duration notation, either sign
    J.append(("job_shift", dict(shape=SHAPES[0], offs=[("-", "altd")], ranges=pins_for("i"))))
    J.append(("job_shift", dict(shape=SHAPES[0], offs=[("+", "altd"), ("-", "H")], ranges=pins_for("i"))))
    J.append(("job_shift", dict(shape=SHAPES[1], offs=[("", "D")], utc=True, ranges=pins_for("i"))))
    J.append(("job_shift", dict(shape=SHAPES[6], offs=[("-", "H")], utc=True, ranges=pins_for("i"))))
    W = {"aMM0": (0, 0), "aMM1": (1, 2), "bMM0": (0, 0), "bMM1": (1, 3)}
    for s1, s2 in (((SHAPES[0], SHAPES[0]), (SHAPES[4], SHAPES[0])) if not th else
                   ((SHAPES[0], SHAPES[0]), (SHAPES[4], SHAPES[0]), (SHAPES[2], SHAPES[0]))):      # (basic +hhmm, ordinal): > 15 min per job
        rg = {k: v for k, v in W.items() if ("MM" in s1[0] and k.startswith("a")) or ("MM" in s2[0] and k.startswith("b"))}
        if "DDD" in s1[0]:
            rg.update({"aDDD0": (0, 0), "aDDD1": (5, 6)})
        if "DDD" in s2[0]:
            rg.update({"bDDD0": (0, 0), "bDDD1": (5, 6)})
        rg = dict(pins_for("a"))
        rg.update(pins_for("b"))
        rg.update({"adMM0": (0, 0), "adMM1": (2, 3), "adDD0": (2, 2), "bdMM0": (0, 0), "bdMM1": (3, 3), "bdDD0": (0, 0),
                   "bthh0": (0, 0), "btmm0": (0, 0), "btss0": (0, 0), "adYY1": (3, 4), "bdYY1": (4, 4)})
        J.append(("job_diff", dict(shape1=s1, shape2=s2, ranges=rg)))
        for tot in ("H", "m", "S") if (th or s1 == s2) else ("s",):
            J.append(("job_diff", dict(shape1=s1, shape2=s2, total=tot, ranges=rg)))
    for argv in CLI_TEMPLATES:
        for which in range(len(argv)):
            for w in ((1, 2, 3) if th else (1, 2)):
                J.append(("job_cli_garbage", dict(argv=argv, which=which, npos=w)))
    for fmt in (3, 4, 0):
        for nmax in ((1, 3, 5) if th else (3,)):
            for reps in ((1, 2, 4, 9) if fmt else (1,)):
                rg = pins_for("r")
                rg.update({"rdMM0": (0, 0), "rdMM1": (2, 2), "rdDD0": (2, 2)})
                J.append(("job_recurrence", dict(fmt=fmt, nmax=nmax, reps=reps, ranges=rg)))
    return J


def job_weight(fn, kw):
    return {"job_diff": 60, "job_recurrence": 50}.get(fn, 20)


INFO = {
    "explanation": "C19: main() is run with argparse on a same-shape placeholder argv and the positional items / offsets replaced by "
                   "strings with symbolic digits; what it prints must equal, character by character, what the library API computes "
                   "for the same strings (parse with dump_as_parsed, shift by the parsed offsets, str; signed difference with "
                   "first + d == second; --as-total in H/M/S; first N points of a recurrence). Options (--calendar, --utc, --ref, "
                   "--print-format, -s/-f), the two environment variables and 22 malformed argument vectors are run concretely "
                   "in fresh processes.",
    "bounds": {"quick": {"items": "7 notations (extended/basic calendar, ordinal, week; with/without time and zone), every digit symbolic",
                         "offsets": "P[n]D, -PT[n]H, +P[n]M, a pair, and the date-time-like notation -P0000-00-[dd]T00 / +P0000-00-[dd]T00 with -PT[n]H, n in 0..40 symbolic", "digits": "years 2000-2009; month 01/02/11/12, day 20-39, day-of-year 35x/36x, week 5x, hour 20-29, minute/second 50-59, zone 0x:30 (so the explored region straddles month, year and day ends and includes invalid field values); differences: February/March 2003-2004", "differences": "extended/extended and basic/extended calendar notations; --as-total H/M/S",
                         "recurrences": "R[n]/start/P[k]D, R[n]/P[k]D/end (n in 1, 2, 4, 9), R/start/P[k]D with --max=3, interval k in 1..40 days symbolic"},
               "thorough": {"offsets": "all four offset lists for every notation", "recurrences": "--max in 1, 3, 5"}},
    "outside": ["the malformed-argument clause beyond the bounded symbolic mutations (every window of 1-2 printable-ASCII characters in 6 valid argument vectors) and the 22 concrete vectors and the bounded symbolic mutations (argparse and CPython's regex engine on arbitrary text are not executed symbolically)",
                "'now', stdin mode, --parse-format", "argparse itself: it runs on a placeholder argv of the same shape (assumption: its tokenisation depends only on the non-digit characters)"],
    "assumptions": ["time.strptime (stdlib fallback in DateTimeOperator.strptime) is stubbed to raise ValueError for strings without day/month names",
                    "the library API used as the oracle is the subject of C01-C14"],
}
REQUIRED_SCENARIOS = {"all": ["cli garbage", "cli single item", "negative offset (-P...)", "two offsets", "--utc", "cli two items", "--as-total",
                              "cli recurrence", "cli options and malformed arguments"]}
