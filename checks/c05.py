"""C05 -- month and year arithmetic follows calendar rules with end-of-period
clamping.

Real code: TimePoint.__add__ (months / years branches), add_months,
to_calendar_date/to_ordinal_date/to_week_date, _tick_over, get_is_leap_year,
get_days_in_year, get_weeks_in_year.
Layering: for ordinal/week points the oracle starts from the calendar date
that the real (C03-verified) conversion gives for p.
"""
import z3

import refmodel as R
from refmodel import PyOps as P
from symx import core
from symx.core import lift, conc
from symx.harness import sym_run
from . import common as C
from .c03 import install_range_summary

PROPERTY = "C05"
L = lift
M = core.MOps


def mmin(a, b):
    return M.ite(a <= b, a, b)


def oracle_add_months(mode, y, m, d, n):
    """n single steps, each clamping the day to the month reached (n concrete
    or decided on the path; y, m, d proxies)"""
    steps = abs(n)
    sgn = 1 if n > 0 else -1
    for _ in range(steps):
        idx = 12 * y + (m - 1) + sgn
        y, m = M.div(idx, 12), M.mod(idx, 12) + 1
        d = mmin(d, R.days_in_month(M, mode, y, m))
    return y, m, d


def same_tod_zone(p, r):
    return z3.And(L(p._hour_of_day) == L(r._hour_of_day), L(p._minute_of_hour) == L(r._minute_of_hour),
                  L(p._second_of_minute) == L(r._second_of_minute), C.z_same_zone(p, r))


def job_months(ctx, mode, rep, n, ranges=None, pins=None, K=C.KWIDE, a24=False):
    """a24: p is written in the 24:00 end-of-day form, i.e. it denotes 00:00 of the following day; the months are
    counted from that day and the result reads 00:00:00"""
    data = ctx.data
    C.set_mode(data, mode)
    install_range_summary(data, mode)
    if a24:
        ranges = dict(ranges or {}, h=(24, 24), mi=(0, 0), se=(0, 0))

    def make(e):
        return {"p": C.point_input(e, data, "", rep, K=K, hmax=24 if a24 else 23)}

    def pre(i):
        return C.m_valid_point(mode, i["p"], rep, a24)

    def body(i):
        p = i["p"]
        r = p + data.Duration(months=n)
        cal = p.get_calendar_date()         # C03-verified view of p (identity for calendar points)
        return r, cal

    def post(i, out):
        if out[0] != "ok":
            return [("no exception", False)]
        p = i["p"]
        r, cal = out[1]
        if C.rep_of(r) != rep or not C.same_rep(p, r):
            return [("keeps the date representation", False)]
        cy, cm, cd = cal
        tod = ("time of day and offset preserved", same_tod_zone(p, r))
        if a24:
            # the day after (oracle): 24:00 of a day is 00:00 of the next
            dim = R.days_in_month(M, mode, cy, cm)
            last = M.And(cd >= dim)
            cy, cm, cd = (M.ite(M.And(last, cm == 12), cy + 1, cy), M.ite(last, M.ite(cm == 12, 1, cm + 1), cm),
                          M.ite(last, 1, cd + 1))
            tod = ("24:00 becomes 00:00:00 of the following day, offset preserved",
                   z3.And(L(r._hour_of_day) == 0, L(r._minute_of_hour) == 0, L(r._second_of_minute) == 0, C.z_same_zone(p, r)))
        ey, em, ed = oracle_add_months(mode, cy, cm, cd, n)
        obs = [("valid date of the mode", C.m_valid_point(mode, r, rep, False)), tod,
               ("lands n months away on the clamped day",
                L(C.m_daynum(mode, rep, C.fields_of(r, rep))) == L(R.daynum_cal(M, mode, ey, em, ed)))]
        if rep == "cal":
            obs.append(("exact calendar fields", z3.And(L(r._year) == L(ey), L(r._month_of_year) == L(em),
                                                        L(r._day_of_month) == L(ed))))
        return obs

    def case_of(v, i):
        return {"check": "months", "mode": mode, "rep": rep, "p": C.point_case(v, "", rep), "n": n, "a24": a24}

    def zsc(i):
        p = i["p"]
        d = {}
        if rep == "cal":
            d["starts on the 31st"] = L(p._day_of_month) == 31
            d["starts on 29 feb"] = z3.And(L(p._month_of_year) == 2, L(p._day_of_month) == 29)
            d["crosses a year end"] = L(p._month_of_year) + n > 12 if n > 0 else L(p._month_of_year) + n < 1
        return d

    return sym_run("months[%s,%s,n=%d,%s,%s]" % (mode, rep, n, ranges, pins), make, pre, body, post, case_of,
                   scenarios_z3=zsc, ranges=ranges, pins=pins,
                   scenarios=lambda i: {"months n<0": n < 0, "months n>12": n > 12, "negative year": conc(i["p"]._year) < 0},
                   bounds={"years": "K in %s" % (K,), "n": n}, sample_every=300)


def job_years(ctx, mode, rep, klo, khi, ranges=None, pins=None, K=C.KWIDE):
    data = ctx.data
    C.set_mode(data, mode)
    install_range_summary(data, mode)

    def make(e):
        return {"p": C.point_input(e, data, "", rep, K=K, hmax=23), "k": e.var("k", klo, khi)}

    def pre(i):
        return C.m_valid_point(mode, i["p"], rep, False)

    def body(i):
        return i["p"] + data.Duration(years=i["k"])

    def post(i, out):
        if out[0] != "ok":
            return [("no exception", False)]
        p, k, r = i["p"], i["k"], out[1]
        if C.rep_of(r) != rep or not C.same_rep(p, r):
            return [("keeps the date representation", False)]
        y2 = p._year + k
        obs = [("valid date of the mode", C.m_valid_point(mode, r, rep, False)),
               ("time of day and offset preserved", same_tod_zone(p, r)),
               ("year advanced by k", L(r._year) == L(y2))]
        if rep == "cal":
            ed = mmin(p._day_of_month, R.days_in_month(M, mode, y2, p._month_of_year))
            obs.append(("month kept, day clamped to the month's length",
                        z3.And(L(r._month_of_year) == L(p._month_of_year), L(r._day_of_month) == L(ed))))
        elif rep == "ord":
            obs.append(("ordinal day clamped to the year's length",
                        L(r._day_of_year) == L(mmin(p._day_of_year, R.days_in_year(M, mode, y2)))))
        else:
            obs.append(("week clamped to the year's last week, weekday kept",
                        z3.And(L(r._week_of_year) == L(mmin(p._week_of_year, R.weeks_in_year(M, mode, y2))),
                               L(r._day_of_week) == L(p._day_of_week))))
        return obs

    def case_of(v, i):
        return {"check": "years", "mode": mode, "rep": rep, "p": C.point_case(v, "", rep), "k": v["k"]}

    def zsc(i):
        p = i["p"]
        if rep == "cal":
            return {"29 feb to a common year": z3.And(L(p._month_of_year) == 2, L(p._day_of_month) == 29,
                                                      z3.Not(R.greg_leap(R.Z3Ops, L(p._year) + L(i["k"]))))}
        if rep == "ord":
            return {"starts on day 366": L(p._day_of_year) == 366}
        return {"starts in week 53": L(p._week_of_year) == 53}

    return sym_run("years[%s,%s,%d..%d,%s,%s]" % (mode, rep, klo, khi, ranges, pins), make, pre, body, post, case_of,
                   scenarios_z3=zsc if R.canon(mode) == "gregorian" else None, ranges=ranges, pins=pins,
                   scenarios=lambda i: {"years k<0": conc(i["k"]) < 0},
                   bounds={"years": "K in %s" % (K,), "k": [klo, khi]}, sample_every=100)


def job_mixed(ctx, mode, rep, n, ranges=None, pins=None, K=C.KWIDE):
    """exact part first, then months, then years"""
    data = ctx.data
    C.set_mode(data, mode)
    install_range_summary(data, mode)

    def make(e):
        return {"p": C.point_input(e, data, "", rep, K=K, hmax=23), "k": e.var("k", -2, 2),
                "dd": e.var("dd", -2, 2), "hh": e.var("hh", -30, 30)}

    def pre(i):
        return C.m_valid_point(mode, i["p"], rep, False)

    def body(i):
        p = i["p"]
        full = p + data.Duration(years=i["k"], months=n, days=i["dd"], hours=i["hh"])
        step = p + data.Duration(days=i["dd"], hours=i["hh"])      # C01-verified
        step = step + data.Duration(months=n)                      # verified by job_months
        step = step + data.Duration(years=i["k"])                  # verified by job_years
        return full, step

    def post(i, out):
        if out[0] != "ok":
            return [("no exception", False)]
        full, step = out[1]
        from .c01 import same_point_z3
        return [("mixed duration = exact part, then months, then years", same_point_z3(full, step))]

    def case_of(v, i):
        return {"check": "mixed", "mode": mode, "rep": rep, "p": C.point_case(v, "", rep), "n": n,
                "k": v["k"], "dd": v["dd"], "hh": v["hh"]}

    return sym_run("mixed[%s,%s,n=%d,%s]" % (mode, rep, n, ranges), make, pre, body, post, case_of, ranges=ranges, pins=pins,
                   scenarios=lambda i: {"mixed duration": True},
                   bounds={"years": "K in %s" % (K,), "n": n, "k": [-2, 2], "days": [-2, 2], "hours": [-30, 30]},
                   sample_every=300)


# ---------------------------------------------------------------------------
def py_add_months(mode, y, m, d, n):
    sgn = 1 if n > 0 else -1
    for _ in range(abs(n)):
        idx = 12 * y + (m - 1) + sgn
        y, m = idx // 12, idx % 12 + 1
        d = min(d, R.days_in_month(P, mode, y, m))
    return y, m, d


def py_add_years(mode, p, k):
    y2 = p._year + k
    if p._month_of_year is not None:
        return ("cal", y2, p._month_of_year, min(p._day_of_month, R.days_in_month(P, mode, y2, p._month_of_year)))
    if p._day_of_year is not None:
        return ("ord", y2, min(p._day_of_year, R.days_in_year(P, mode, y2)))
    return ("week", y2, min(p._week_of_year, R.weeks_in_year(P, mode, y2)), p._day_of_week)


def _fields(p):
    return (C.rep_of(p),) + tuple(C.fields_of(p))


def _tod(p):
    return (p._hour_of_day, p._minute_of_hour, p._second_of_minute, p._time_zone._hours, p._time_zone._minutes)


def replay(case, M_):
    data = M_.data
    mode = case["mode"]
    data.CALENDAR.set_mode(mode)
    try:
        p = C.build_point(data, case["p"])
        k = case["check"]
        if k == "months":
            n = case["n"]
            r = p + data.Duration(months=n)
            is24 = p._hour_of_day == 24
            n0 = C.py_daynum(mode, p) + (1 if is24 else 0)          # 24:00 is 00:00 of the following day
            y, m, d = R.py_cal_of_daynum(mode, n0)
            ey, em, ed = py_add_months(mode, y, m, d, n)
            want_tod = (0, 0, 0) + tuple(_tod(p)[3:]) if is24 else _tod(p)
            ok = (C.rep_of(r) == C.rep_of(p) and C.py_valid_point(mode, r) and tuple(_tod(r)) == tuple(want_tod) and
                  C.py_daynum(mode, r) == R.daynum_cal(P, mode, ey, em, ed))
            return not ok, "%s + P%dM = %s, expected the day %04d-%02d-%02d" % (
                C.describe_point(p), n, C.describe_point(r), ey, em, ed)
        if k == "years":
            r = p + data.Duration(years=case["k"])
            exp = py_add_years(mode, p, case["k"])
            ok = _fields(r) == exp and _tod(r) == _tod(p) and C.py_valid_point(mode, r)
            return not ok, "%s + P%dY = %s, expected %s" % (C.describe_point(p), case["k"], C.describe_point(r), exp)
        if k == "mixed":
            full = p + data.Duration(years=case["k"], months=case["n"], days=case["dd"], hours=case["hh"])
            q = p + data.Duration(days=case["dd"], hours=case["hh"])
            n0 = C.py_daynum(mode, q)
            y, m, d = R.py_cal_of_daynum(mode, n0)
            ey, em, ed = py_add_months(mode, y, m, d, case["n"])
            # months applied in q's representation, then years by that representation's rule
            if C.rep_of(p) == "cal":
                mid = C.build_point(data, dict(case["p"], year=ey, month_of_year=em, day_of_month=ed,
                                               hour_of_day=q._hour_of_day))
            elif C.rep_of(p) == "ord":
                yy, doy = R.py_ord_of_daynum(mode, R.daynum_cal(P, mode, ey, em, ed))
                mid = C.build_point(data, dict(case["p"], year=yy, day_of_year=doy, hour_of_day=q._hour_of_day))
            else:
                wy, w, wd = R.py_week_of_daynum(mode, R.daynum_cal(P, mode, ey, em, ed))
                mid = C.build_point(data, dict(case["p"], year=wy, week_of_year=w, day_of_week=wd,
                                               hour_of_day=q._hour_of_day))
            exp = py_add_years(mode, mid, case["k"])
            ok = _fields(full) == exp and C.py_valid_point(mode, full) and _tod(full) == _tod(q)
            return not ok, "%s + P%dY%dM%dDT%dH = %s, expected %s" % (
                C.describe_point(p), case["k"], case["n"], case["dd"], case["hh"], C.describe_point(full), exp)
        raise KeyError(k)
    finally:
        data.CALENDAR.set_mode("gregorian")


def jobs(tier):
    th = tier == "thorough"
    J = []
    ns = [n for n in range(-14, 15) if n != 0]
    for mode in C.MODES4:
        greg = mode == "gregorian"
        for n in ns:
            J.append(("job_months", dict(mode=mode, rep="cal", n=n)))
        for n in ((-13, -2, -1, 1, 2, 14) if (greg or th) else (-1, 1, 13)):
            for lo in (1, 123, 245):
                J.append(("job_months", dict(mode=mode, rep="ord", n=n, ranges={"DOY": (lo, min(lo + 121, 366))})))
        # start points written as 24:00 (= 00:00 of the following day)
        for n in (-1, 1, 12):
            J.append(("job_months", dict(mode=mode, rep="cal", n=n, a24=True)))
        J.append(("job_months", dict(mode=mode, rep="ord", n=1, a24=True, ranges={"DOY": (300, 366)})))
        J.append(("job_years", dict(mode=mode, rep="cal", klo=-450, khi=450)))
        J.append(("job_years", dict(mode=mode, rep="ord", klo=-450, khi=450)))
        if greg or th:
            for res in ((0, 4, 99, 100, 104, 203, 300, 303, 396, 399) if (th and greg) else (0, 4, 99, 104, 303, 399)):
                J.append(("job_years", dict(mode=mode, rep="week", klo=-30, khi=30, pins=C.residue_pins(res))))
                for n in (-1, 1) if not (th and greg) else (-13, -1, 1, 14):
                    for w in ((1, 9), (10, 44), (45, 53)):
                        J.append(("job_months", dict(mode=mode, rep="week", n=n, pins=C.residue_pins(res),
                                                     ranges={"W": w})))
        if greg or th:
            for n in (1, -1):
                for m in ((1, 3), (4, 9), (10, 12)):
                    J.append(("job_mixed", dict(mode=mode, rep="cal", n=n, ranges={"M": m})))
            J.append(("job_mixed", dict(mode=mode, rep="ord", n=1, ranges={"DOY": (1, 60)})))
            J.append(("job_mixed", dict(mode=mode, rep="ord", n=-1, ranges={"DOY": (300, 366)})))
    return J


def job_weight(fn, kw):
    if fn == "job_mixed":
        return 60
    if kw.get("rep") == "week":
        return 50
    return 10 + abs(kw.get("n", 0))


INFO = {
    "explanation": "C05: p + Duration(months=n) for concrete n and p + Duration(years=k) for symbolic k on a symbolic valid "
                   "TimePoint; per path the result is a valid date of the mode in p's representation, time of day and offset "
                   "unchanged, lands on the day reached by |n| single clamping month steps (years: month/day, ordinal day or "
                   "week clamped to the target year), and a mixed duration equals exact part, then months, then years.",
    "bounds": {"quick": {"years": "-1 000 000..999 999", "months": "calendar: every n in -14..14 in all modes; ordinal: n in {-13,-2,-1,1,2,14} (gregorian), {-1,1,13} (other modes); week dates: n = +-1, year residues 0/4/99/104/303/399 (gregorian)",
                         "year counts": "calendar/ordinal: k in -450..450 symbolic, all modes; week dates: k in -30..30 for the six year residues (gregorian)",
                         "mixed": "gregorian: n = +-1 with symbolic years +-2, days +-2, hours +-30"},
               "thorough": {"months": "ordinal as gregorian in all modes", "week dates": "gregorian: 10 year residues, n in {-13,-1,1,14}; other modes as quick"}},
    "outside": ["24:00 start points for year steps and week dates (month steps from 24:00 calendar / ordinal points are decided: n in {-1, 1, 12})", "month counts beyond +-14", "fractional time fields"],
    "assumptions": ["for ordinal and week points the oracle starts from the calendar date given by the real conversion (C03)",
                    "mixed durations: the exact, month and year steps used as reference are the real single-kind additions verified by C01 and by this check's own jobs"],
}
REQUIRED_SCENARIOS = {"all": ["starts on the 31st", "starts on 29 feb", "crosses a year end", "months n<0", "months n>12",
                              "29 feb to a common year", "starts on day 366", "starts in week 53", "years k<0",
                              "mixed duration"]}
