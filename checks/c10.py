"""C10 -- durations survive a round trip through text.

Real code: Duration.__init__/__str__/__abs__/__bool__/__eq__, DurationParser.parse
and its DURATION_REGEXES (interpreted on symbolic strings by the regex shim),
parse_timepoint_expression(is_duration=True) for the date-time-like spelling.
"""
import z3

import refmodel as R
from symx import core, strs
from symx.core import lift, conc, SymInt
from symx.harness import sym_run, new_result
from symx.strs import SymStr, z3_str_eq
from . import common as C
from .c11 import z_same, comps, UNITS

PROPERTY = "C10"
L = lift
LETTER = {"years": "Y", "months": "M", "days": "D", "hours": "H", "minutes": "M", "seconds": "S"}


def job_roundtrip(ctx, present, negative=False, weeks=False, lim=999999, floats=False):
    """d built from symbolic integer components (those in `present`), then
    parse(str(d)) == d, component-wise identity, and str is a fixpoint"""
    data, parsers = ctx.data, ctx.parsers
    DP = parsers.DurationParser()

    def make(e):
        if weeks:
            return {"weeks": e.var("w", 0, lim)}
        return {u: e.var(u, 0, lim) for u in present}

    def body(i):
        kw = {}
        for u, v in i.items():
            v = -v if negative else v
            kw[u] = core.FLOAT(v) if (floats and u in ("hours", "minutes", "seconds")) else v
        d = data.Duration(**kw)
        s = data.Duration.__str__(d)
        back = DP.parse(s)
        s2 = data.Duration.__str__(back)
        return d, s, back, s2, (back == d)

    def post(i, out):
        if out[0] != "ok":
            return [("no exception", False)]
        d, s, back, s2, eq = out[1]
        obs = [("parse(str(d)) == d (real ==)", bool(eq)),
               ("same components", z_same(back, d)),
               ("same form (weeks / units)", (back._weeks is None) == (d._weeks is None)),
               ("str is a fixpoint", z3_str_eq(s, s2))]
        # faithful to the designators: the text is P[-]{n}{letter}... of the non-zero components
        return obs

    def case_of(v, i):
        kw = {"weeks": v["w"]} if weeks else {u: v[u] for u in present}
        if negative:
            kw = {k: -x for k, x in kw.items()}
        return {"check": "roundtrip", "kw": kw, "floats": floats}

    return sym_run("roundtrip[%s%s%s%s]" % ("weeks" if weeks else "+".join(present), ",neg" if negative else "",
                                           ",float" if floats else "", ",lim=%d" % lim),
                   make, None, body, post, case_of,
                   scenarios=lambda i: {"negative duration": negative, "weeks form": weeks,
                                        "zero component": any(conc(x) == 0 for x in i.values()),
                                        "all components zero": all(conc(x) == 0 for x in i.values())},
                   bounds={"components": present if not weeks else ["weeks"], "range": [0, lim]}, sample_every=20)


def digits(e, tag, n):
    """n symbolic digit characters and their value"""
    els, val = [], 0
    for k in range(n):
        ch, d = strs.digit(e, "%s%d" % (tag, k))
        els.append(ch)
        val = val * 10 + d
    return els, val


def job_parse(ctx, shape, nd=2, negative=False, mark=None):
    """a designator string with symbolic digits decodes to exactly the spelled
    components.  shape: sequence of unit names; mark: (',' | '.', digits) puts a
    concrete decimal on the last (time) unit"""
    data, parsers = ctx.data, ctx.parsers
    DP = parsers.DurationParser()

    def make(e):
        return {u: digits(e, u[:2] + ("t" if u in ("hours", "minutes", "seconds") else "d"), nd) for u in shape}

    def body(i):
        els = ["-"] if negative else []
        els.append("P")
        t_open = False
        for u in shape:
            if u in ("hours", "minutes", "seconds") and not t_open:
                els.append("T")
                t_open = True
            els.extend(i[u][0])
            if mark and u == shape[-1]:
                els.extend(mark[0] + mark[1])
            els.append("W" if u == "weeks" else LETTER[u])
        s = SymStr.make(els)
        return s, DP.parse(s)

    def post(i, out):
        if out[0] != "ok":
            return [("well-formed duration text is accepted", False)]
        s, d = out[1]
        sgn = -1 if negative else 1
        obs = []
        if shape == ("weeks",):
            # a zero count is the empty duration in unit form
            obs.append(("weeks", L(comps(d)[2]) == sgn * L(i["weeks"][1]) * 7 * 86400))
            return obs
        for u in UNITS:
            got = getattr(d, "_" + u)
            want = sgn * i[u][1] if u in i else 0
            if mark and u == shape[-1]:
                # integer part symbolic, fraction concrete: compare exactly as rationals
                den = 10 ** len(mark[1])
                num = sgn * (i[u][1] * den + int(mark[1]))
                if type(got) is core.SymRatio:
                    obs.append(("%s carries the spelled decimal value" % u, z3.BoolVal(got.den == den) if False else
                                L(got.num) * den == L(num) * got.den))
                else:
                    obs.append(("%s carries the spelled decimal value" % u, L(got) * den == L(num)))
                continue
            obs.append(("%s is the spelled value" % u, L(got) == L(want)))
        return obs

    def case_of(v, i):
        txt = ("-" if negative else "") + "P"
        t_open = False
        for u in shape:
            tag = u[:2] + ("t" if u in ("hours", "minutes", "seconds") else "d")
            if u in ("hours", "minutes", "seconds") and not t_open:
                txt += "T"
                t_open = True
            txt += "".join(str(v["%s%d" % (tag, k)]) for k in range(nd))
            if mark and u == shape[-1]:
                txt += mark[0] + mark[1]
            txt += "W" if u == "weeks" else LETTER[u]
        return {"check": "parse", "text": txt}

    return sym_run("parse[%s,%dd%s%s]" % ("".join(("W" if u == "weeks" else LETTER[u]) for u in shape), nd,
                                         ",neg" if negative else "", ",%s%s" % mark if mark else ""),
                   make, None, body, post, case_of, scenarios=lambda i: {"designator parse": True, "leading minus": negative},
                   bounds={"shape": list(shape), "digits per component": nd}, sample_every=20)


def job_datetime_like(ctx, basic):
    """P[YYYY]-[MM]-[DD]T[hh]:[mm]:[ss] (and its basic spelling) denotes the
    same duration as the designator spelling"""
    data, parsers = ctx.data, ctx.parsers
    DP = parsers.DurationParser()

    def make(e):
        return {"Y": digits(e, "Y", 4), "M": digits(e, "M", 2), "D": digits(e, "D", 2), "h": digits(e, "h", 2),
                "m": digits(e, "m", 2), "s": digits(e, "s", 2)}

    def body(i):
        sep_d, sep_t = ([], []) if basic else (["-"], [":"])
        els = ["P"] + i["Y"][0] + sep_d + i["M"][0] + sep_d + i["D"][0] + ["T"] + i["h"][0] + sep_t + i["m"][0] + sep_t + i["s"][0]
        s = SymStr.make(els)
        d = DP.parse(s)
        ref = data.Duration(years=i["Y"][1], months=i["M"][1], days=i["D"][1], hours=i["h"][1], minutes=i["m"][1], seconds=i["s"][1])
        return s, d, ref, (d == ref)

    def post(i, out):
        if out[0] != "ok":
            exc = out[1]
            # the time-point grammar refuses hour > 24 etc. only through its regexes (two digits each); bounds are not checked
            return [("date-time-like duration is accepted", False)]
        s, d, ref, eq = out[1]
        return [("equals the designator spelling (real ==)", bool(eq)), ("same components", z_same(d, ref))]

    def case_of(v, i):
        g = lambda t, n: "".join(str(v["%s%d" % (t, k)]) for k in range(n))
        if basic:
            txt = "P%s%s%sT%s%s%s" % (g("Y", 4), g("M", 2), g("D", 2), g("h", 2), g("m", 2), g("s", 2))
        else:
            txt = "P%s-%s-%sT%s:%s:%s" % (g("Y", 4), g("M", 2), g("D", 2), g("h", 2), g("m", 2), g("s", 2))
        return {"check": "datetime_like", "text": txt}

    return sym_run("datetime_like[%s]" % ("basic" if basic else "extended"), make, None, body, post, case_of,
                   scenarios=lambda i: {"date-time-like": True}, bounds={"digits": "YYYY MM DD hh mm ss all symbolic"},
                   sample_every=20)


def job_datetime_like_decimal(ctx, basic, kind, mark=",", digs="5"):
    """date-time-like spelling whose last time unit carries a decimal fraction (hh,ii | hh:mm,nn | hh:mm:ss,tt):
    the same duration as the designator spelling with that decimal on that unit and nothing on lower units"""
    data, parsers = ctx.data, ctx.parsers
    DP = parsers.DurationParser()
    den = 10 ** len(digs)

    def make(e):
        i = {"Y": digits(e, "Y", 4), "M": digits(e, "M", 2), "D": digits(e, "D", 2), "h": digits(e, "h", 2)}
        if kind in ("nn", "tt"):
            i["m"] = digits(e, "m", 2)
        if kind == "tt":
            i["s"] = digits(e, "s", 2)
        return i

    def body(i):
        sep_d, sep_t = ([], []) if basic else (["-"], [":"])
        els = ["P"] + i["Y"][0] + sep_d + i["M"][0] + sep_d + i["D"][0] + ["T"] + i["h"][0]
        if "m" in i:
            els += sep_t + i["m"][0]
        if "s" in i:
            els += sep_t + i["s"][0]
        els += [mark] + list(digs)
        return SymStr.make(els), DP.parse(SymStr.make(els))

    def post(i, out):
        if out[0] != "ok":
            return [("date-time-like duration with a decimal is accepted", False)]
        s, d = out[1]
        unit = {"ii": "hours", "nn": "minutes", "tt": "seconds"}[kind]
        base = {"ii": i["h"][1], "nn": i.get("m", (0, 0))[1], "tt": i.get("s", (0, 0))[1]}[kind]
        obs = [("years/months/days are the spelled values", z3.And(L(d._years) == L(i["Y"][1]), L(d._months) == L(i["M"][1]), L(d._days) == L(i["D"][1])))]
        got = getattr(d, "_" + unit)
        if type(got) is core.SymRatio:
            obs.append(("%s carries the spelled decimal value" % unit, L(got.num) * den == (L(base) * den + int(digs)) * got.den))
        else:
            obs.append(("%s carries the spelled decimal value" % unit, False if int(digs) else L(got) == L(base)))
        order = ["hours", "minutes", "seconds"]
        for u in order[:order.index(unit)]:
            want = {"hours": i["h"][1], "minutes": i.get("m", (0, 0))[1]}[u]
            obs.append(("%s is the spelled value" % u, L(getattr(d, "_" + u)) == L(want)))
        for u in order[order.index(unit) + 1:]:
            g = getattr(d, "_" + u)
            obs.append(("nothing is added to %s (the decimal is not counted twice)" % u, (L(g) == 0) if g is not None else True))
        return obs

    def case_of(v, i):
        g = lambda t, n: "".join(str(v["%s%d" % (t, k)]) for k in range(n))
        sd, st = ("", "") if basic else ("-", ":")
        txt = "P" + g("Y", 4) + sd + g("M", 2) + sd + g("D", 2) + "T" + g("h", 2)
        if kind in ("nn", "tt"):
            txt += st + g("m", 2)
        if kind == "tt":
            txt += st + g("s", 2)
        return {"check": "datetime_like_decimal", "text": txt + mark + digs, "kind": kind}

    return sym_run("datetime_like_decimal[%s,%s,%s%s]" % ("basic" if basic else "extended", kind, mark, digs), make, None, body, post,
                   case_of, scenarios=lambda i: {"date-time-like with decimal": True},
                   bounds={"digits": "all symbolic", "decimal": mark + digs, "unit": kind}, sample_every=20)


DECIMALS = ["PT5,5M", "PT5.5M", "PT0,5S", "PT1H30,25M", "P1DT2,75H", "PT0.000001S", "PT123456,789S", "-PT2,5H", "P1Y2M3DT4H5M6,7S",
            "PT9999999,5S", "PT0,25H", "P3DT0,125S"]
# a decimal fraction on a higher-order unit next to lower-order integer units (non-dyadic fractions: their float
# images must survive str() exactly, whatever carries the writer applies)
DECIMALS += ["%sPT%sH%dM" % (sg, h, m) for h in ("0,97", "0,17", "8,61", "0,36", "1,5", "23,99", "0,01")
             for m in (8, 27, 44, 17, 59) for sg in ("", "-")]
DECIMALS += ["%sPT%sM%dS" % (sg, mi, se) for mi in ("6,49", "0,25", "2,1", "59,99") for se in (35, 1, 59) for sg in ("", "-")]
DECIMALS += ["P1Y2MT0,36H27M", "P3DT0,97H44M5S", "PT0,17H8M0,5S"]


def job_decimals(ctx):
    """concrete supplement (not a solver verdict): decimal components round trip"""
    data, parsers = ctx.data, ctx.parsers
    DP = parsers.DurationParser()
    res = new_result("decimals[concrete]")
    for txt in DECIMALS:
        res["obligations"] += 1
        res["paths"] += 1
        try:
            d = DP.parse(txt)
            s = str(d)
            ok = DP.parse(s) == d and str(DP.parse(s)) == s
        except Exception:
            ok = False
        if ok:
            res["discharged"] += 1
            res["trivially"] += 1
        else:
            res["candidates"].append({"label": "decimal duration round trip", "how": "concrete", "case": {"check": "decimal", "text": txt}})
    res["nontrivial_paths"] = len(DECIMALS)
    res["scenarios"]["decimal supplement"] = {"texts": len(DECIMALS), "first": DECIMALS[:12]}
    res["notes"].append("concrete supplement, not a solver verdict")
    return res


# ---------------------------------------------------------------------------
def replay(case, M):
    data, parsers = M.data, M.parsers
    DP = parsers.DurationParser()
    k = case["check"]
    if k == "roundtrip":
        kw = dict(case["kw"])
        if case.get("floats"):
            for u in ("hours", "minutes", "seconds"):
                if u in kw:
                    kw[u] = float(kw[u])
        d = data.Duration(**kw)
        s = str(d)
        try:
            back = DP.parse(s)
        except Exception as exc:
            return True, "parse(str(%r)) = parse(%r) raised %s: %s" % (kw, s, type(exc).__name__, exc)
        from .c11 import _py_comps
        bad = not (back == d) or _py_comps(back) != _py_comps(d) or str(back) != s
        return bad, "Duration(%s) -> %r -> %s (str %r)" % (kw, s, _py_comps(back), str(back))
    if k == "datetime_like_decimal":
        import re
        txt = case["text"]
        try:
            d = DP.parse(txt)
        except Exception as exc:
            return True, "parse(%r) raised %s: %s" % (txt, type(exc).__name__, exc)
        m = re.match(r"P(\d{4})-?(\d\d)-?(\d\d)T(\d\d):?(\d\d)?:?(\d\d)?[,.](\d+)$", txt)
        Y, Mo, D, h, mi, se, fr = m.groups()
        frac = float("0." + fr)
        exp = {"years": int(Y), "months": int(Mo), "days": int(D), "hours": int(h), "minutes": int(mi or 0), "seconds": int(se or 0)}
        exp[{"ii": "hours", "nn": "minutes", "tt": "seconds"}[case["kind"]]] += frac
        ref = data.Duration(**exp)
        bad = not (d == ref) or abs(d.get_seconds() - ref.get_seconds()) > 1e-6
        return bad, "parse(%r) = %s, designator spelling %s" % (txt, d, ref)
    if k in ("parse", "datetime_like", "decimal"):
        txt = case["text"]
        try:
            d = DP.parse(txt)
        except Exception as exc:
            return True, "parse(%r) raised %s: %s" % (txt, type(exc).__name__, exc)
        if k == "decimal":
            try:
                s = str(d)
                back = DP.parse(s)
            except Exception as exc:
                return True, "parse(%r) = %r; its text form does not parse back: %s: %s" % (txt, d, type(exc).__name__, exc)
            bad = not (back == d) or str(back) != s
            return bad, "parse(%r) = %s; str -> %r -> %s" % (txt, d, s, back)
        import re
        neg = txt.startswith("-")
        body = txt.lstrip("-")[1:]
        if k == "datetime_like":
            nums = re.findall(r"\d+", body)
            if len(nums) == 2:
                dpart, tpart = nums
                vals = [int(dpart[:4]), int(dpart[4:6]), int(dpart[6:8]), int(tpart[:2]), int(tpart[2:4]), int(tpart[4:6])]
            else:
                vals = [int(x) for x in nums]
            exp = dict(zip(UNITS, vals))
        else:
            exp = {}
            date, _, time = body.partition("T")
            for n, l in re.findall(r"(\d+)([YMDW])", date):
                exp[{"Y": "years", "M": "months", "D": "days", "W": "weeks"}[l]] = int(n)
            for n, l in re.findall(r"(\d+)([HMS])", time):
                exp[{"H": "hours", "M": "minutes", "S": "seconds"}[l]] = int(n)
            if re.search(r"\d[,.]\d", body):
                return False, "decimal shape: covered by the symbolic check only"
        if neg:
            exp = {u: -x for u, x in exp.items()}
        ref = data.Duration(**exp)
        from .c11 import _py_comps
        bad = _py_comps(d) != _py_comps(ref)
        return bad, "parse(%r) = %s %s, spelled %s" % (txt, d, _py_comps(d), exp)
    raise KeyError(k)


def jobs(tier):
    th = tier == "thorough"
    J = [("job_decimals", {})]
    import itertools
    subsets = []
    for r in range(1, 7):
        for c in itertools.combinations(UNITS, r):
            subsets.append(c)
    pick = subsets if th else [s for s in subsets if len(s) in (1, 6) or s in (("years", "days"), ("days", "hours"), ("months", "minutes"),
                                                                            ("hours", "minutes", "seconds"), ("years", "months", "days"),
                                                                            ("days", "seconds"), ("months", "hours", "seconds"))]
    for s in pick:
        lim = 999999 if len(s) <= 2 else (9999 if len(s) <= 3 else 99)
        if th:
            lim = 999999999 if len(s) <= 2 else (999999 if len(s) <= 3 else (9999 if len(s) <= 4 else 999))
        J.append(("job_roundtrip", dict(present=s, lim=lim)))
        if len(s) <= 3 or th:
            J.append(("job_roundtrip", dict(present=s, lim=min(lim, 9999), negative=True)))
    J.append(("job_roundtrip", dict(present=("hours", "minutes", "seconds"), lim=999, floats=True)))
    J.append(("job_roundtrip", dict(present=(), weeks=True)))
    J.append(("job_roundtrip", dict(present=(), weeks=True, negative=True)))
    shapes = [("weeks",), ("years",), ("months",), ("days",), ("hours",), ("minutes",), ("seconds",), UNITS,
              ("years", "minutes"), ("months", "minutes"), ("days", "hours"), ("hours", "seconds"), ("years", "months", "days")]
    if th:
        shapes = [("weeks",)] + subsets
    for sh in shapes:
        for nd in (((1, 2, 3, 4, 6) if th else (1, 2, 3)) if len(sh) == 1 else ((1, 2, 3) if th and len(sh) <= 3 else (2,))):
            J.append(("job_parse", dict(shape=sh, nd=nd)))
        J.append(("job_parse", dict(shape=sh, nd=1, negative=True)))
    for sh in (("hours",), ("minutes",), ("seconds",), ("hours", "minutes"), ("days", "seconds")):
        for mark in ((",", "5"), (".", "25"), (",", "000001"), (".", "0")):
            J.append(("job_parse", dict(shape=sh, nd=2, mark=mark)))
    for basic in (False, True):
        for kind in ("ii", "nn", "tt"):
            for mark, digs in ((",", "5"), (".", "25")):
                J.append(("job_datetime_like_decimal", dict(basic=basic, kind=kind, mark=mark, digs=digs)))
    J.append(("job_datetime_like", dict(basic=False)))
    J.append(("job_datetime_like", dict(basic=True)))
    return J


INFO = {
    "explanation": "C10: Durations built from symbolic integer components (every subset of units, positive and all-negative, weeks "
                   "form, int- and float-typed) are rendered by the real __str__ into a string with symbolic digits and parsed "
                   "back by the real DurationParser (its regexes interpreted on the symbolic string): parse(str(d)) == d, same "
                   "components and form, str a fixpoint. Designator strings with symbolic digits (PnYnMnDTnHnMnS subsets, PnW, "
                   "leading '-', comma/point decimals with concrete fraction digits) decode to the spelled components; the "
                   "date-time-like spellings (extended and basic, all digits symbolic) equal the designator spelling.",
    "bounds": {"quick": {"components": "0..999999 (1-2 units), 0..9999 (3 units), 0..99 (4-6 units); selected unit subsets",
                         "designator strings": "1-3 symbolic digits per component", "decimals": "fraction digits concrete: ,5 .25 ,000001 .0; plus 109 concrete decimal texts (incl. a non-dyadic fraction on a higher-order unit next to lower-order integer units)"},
               "thorough": {"components": "every subset of units; 0..999 999 999 (1-2 units), 0..999 999 (3), 0..9999 (4), 0..999 (5-6)",
                            "designator strings": "every subset of units; 1-6 symbolic digits (single unit), 1-3 (2-3 units), 2 (more)"}},
    "outside": ["decimal component values with symbolic fraction digits (floating point)", "mixed-sign durations (excluded by the property)",
                "components of 7 or more digits (quick) / 10 or more digits (thorough)"],
    "assumptions": ["the regex shim interprets the library's own patterns from CPython's parse tree; it is validated against re on every run (symx.validate_strs)"],
}
REQUIRED_SCENARIOS = {"all": ["date-time-like with decimal", "negative duration", "weeks form", "zero component", "all components zero", "designator parse",
                              "leading minus", "date-time-like", "decimal supplement"]}
NEEDS_STRING_VALIDATION = True
