#!/usr/bin/env python3
"""Confirm a seeded change and run checks against it WITHOUT touching /repo:
a scratch worktree of /repo is created under /tmp, the patch applied there, and
the checks are pointed at it through VERIF_REPO.

usage: tools/seedrun.py <seed_dir with patch.diff, demo.py, meta.json> <name> <check-id> [<check-id> ...]
Writes /verif/seeded/<name>/{patch.diff,demo.py,meta.json,result.json}.
"""
import json
import os
import shutil
import subprocess
import sys

VERIF = os.path.dirname(os.path.dirname(os.path.abspath(__file__)))


def sh(cmd, **kw):
    return subprocess.run(cmd, shell=True, capture_output=True, text=True, **kw)


def main():
    seed, name, checks = sys.argv[1], sys.argv[2], sys.argv[3:]
    out = os.path.join(VERIF, "seeded", name)
    os.makedirs(out, exist_ok=True)
    for f in ("patch.diff", "demo.py", "meta.json"):
        if os.path.abspath(seed) != os.path.abspath(out):
            shutil.copy(os.path.join(seed, f), os.path.join(out, f))
    wt = "/tmp/seedwt_%s_%d" % (name, os.getpid())
    sh("git -C /repo worktree remove --force %s" % wt)
    r = sh("git -C /repo worktree add -q --detach %s HEAD" % wt)
    assert r.returncode == 0, r.stderr
    res = {"name": name, "checks": {}}
    try:
        demo = os.path.join(out, "demo.py")
        r0 = sh("PYTHONPATH=%s /venv/bin/python %s" % (wt, demo), cwd=wt)
        res["demo_on_original_exit"] = r0.returncode
        ra = sh("git apply %s" % os.path.join(out, "patch.diff"), cwd=wt)
        assert ra.returncode == 0, ra.stderr
        r1 = sh("PYTHONPATH=%s /venv/bin/python %s" % (wt, demo), cwd=wt)
        res["demo_with_change_exit"] = r1.returncode
        res["demo_with_change_output"] = (r1.stdout + r1.stderr)[-600:]
        rt = sh("/venv/bin/python -m pytest -q -p no:cacheprovider --timeout=900 "
                "--deselect metomi/isodatetime/tests/test_main.py::test_pipe metomi/isodatetime/tests 2>&1 | tail -1", cwd=wt)
        res["tests_with_change"] = rt.stdout.strip()
        res["confirmed"] = (r0.returncode == 0 and r1.returncode != 0 and " passed" in rt.stdout and "failed" not in rt.stdout)
        env = dict(os.environ, VERIF_REPO=wt, VERIF_EVIDENCE_DIR="/tmp/seedev_%s" % name,
                   VERIF_REPLAY_DIR="/tmp/seedrp_%s" % name)
        for c in checks:
            p = subprocess.run([os.path.join(VERIF, "vcheck"), c], capture_output=True, text=True, env=env, cwd=VERIF)
            lines = [l for l in p.stdout.splitlines() if l.startswith(("VIOLATION", "HARNESS", "OK", "KNOWN", "  violated"))]
            res["checks"][c] = {"exit": p.returncode, "lines": lines[:6]}
            print(c, "exit", p.returncode, *lines[:3], sep="\n   ")
    finally:
        sh("git -C /repo worktree remove --force %s" % wt)
        shutil.rmtree("/tmp/seedev_%s" % name, ignore_errors=True)
        shutil.rmtree("/tmp/seedrp_%s" % name, ignore_errors=True)
    with open(os.path.join(out, "result.json"), "w") as fh:
        json.dump(res, fh, indent=1)
    print(json.dumps({k: v for k, v in res.items() if k != "checks"}, indent=1))


if __name__ == "__main__":
    main()
