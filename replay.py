#!/usr/bin/env python
"""Replay one counterexample against the pristine, un-instrumented package in
this (fresh) process.  usage: replay.py <case.json>
exit 1 + 'REPRODUCED ...' when the real code violates the property on this
input, exit 0 + 'NOT-REPRODUCED ...' otherwise."""
import importlib
import json
import os
import sys
import types

VERIF = os.path.dirname(os.path.abspath(__file__))
sys.path.insert(0, VERIF)
REPO = os.environ.get("VERIF_REPO", "/repo")
if REPO not in sys.path:
    sys.path.insert(0, REPO)


def pristine():
    M = types.SimpleNamespace()
    for n in ("data", "parsers", "dumpers", "parser_spec", "timezone",
              "exceptions", "datetimeoper", "main"):
        setattr(M, n, importlib.import_module("metomi.isodatetime." + n))
    assert not getattr(M.data, "__symx_marker__", False)
    _printable(M.data)
    assert os.path.realpath(M.data.__file__).startswith(os.path.realpath(REPO)), M.data.__file__
    return M


def _printable(data):
    """replays describe values with str(); a point whose year needs expanded
    digits that it was not built with cannot be printed by the library
    (OverflowError).  For *describing* results only, fall back to a field dump
    in that case; the fallback text still distinguishes different states."""
    tp_str, rec_str = data.TimePoint.__str__, data.TimeRecurrence.__str__

    def point_str(self, *a, **k):
        try:
            return tp_str(self, *a, **k)
        except Exception as exc:
            if a or k:
                raise
            tz = self._time_zone
            return "<unprintable TimePoint (%s): %s tz=%s:%s>" % (type(exc).__name__, {
                s_[1:]: getattr(self, s_, None) for s_ in self.__slots__
                if s_ != "_time_zone" and getattr(self, s_, None) is not None}, tz._hours, tz._minutes)

    def recurrence_str(self):
        try:
            return rec_str(self)
        except Exception:
            return "<recurrence R%s start=%s end=%s interval=%s>" % (
                self._repetitions, self._start_point, self._end_point, self._duration)
    data.TimePoint.__str__ = point_str
    data.TimeRecurrence.__str__ = recurrence_str


def main():
    blob = json.load(open(sys.argv[1]))
    prop, case = blob["property"], blob["case"]
    mod = importlib.import_module("checks." + prop.lower())
    M = pristine()
    violated, detail = mod.replay(case, M)
    if violated:
        print("REPRODUCED property=%s %s" % (prop, detail))
        return 1
    print("NOT-REPRODUCED property=%s %s" % (prop, detail))
    return 0


if __name__ == "__main__":
    sys.exit(main())
