#!/usr/bin/env python
"""Replay one counterexample against the pristine, un-instrumented package in
this (fresh) process.  usage: replay.py <case.json>
exit 1 + 'REPRODUCED ...' when the real code violates the property on this
input, exit 0 + 'NOT-REPRODUCED ...' otherwise."""
import importlib
import json
import os
import sys
import types

VERIF = os.path.dirname(os.path.abspath(__file__))
sys.path.insert(0, VERIF)
REPO = os.environ.get("VERIF_REPO", "/repo")
if REPO not in sys.path:
    sys.path.insert(0, REPO)


def pristine():
    M = types.SimpleNamespace()
    for n in ("data", "parsers", "dumpers", "parser_spec", "timezone",
              "exceptions", "datetimeoper", "main"):
        setattr(M, n, importlib.import_module("metomi.isodatetime." + n))
    assert not getattr(M.data, "__symx_marker__", False)
    assert os.path.realpath(M.data.__file__).startswith(os.path.realpath(REPO)), M.data.__file__
    return M


def main():
    blob = json.load(open(sys.argv[1]))
    prop, case = blob["property"], blob["case"]
    mod = importlib.import_module("checks." + prop.lower())
    M = pristine()
    violated, detail = mod.replay(case, M)
    if violated:
        print("REPRODUCED property=%s %s" % (prop, detail))
        return 1
    print("NOT-REPRODUCED property=%s %s" % (prop, detail))
    return 0


if __name__ == "__main__":
    sys.exit(main())
