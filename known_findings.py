"""Matching of replayed violations against the *open* entries of
known_findings.jsonl.  A finding is identified by a region predicate over the
replay case (plus its exemplar); anything outside every listed region is still
reported as a VIOLATION.  The file is never written at run time."""


def matches(finding, case):
    region = finding.get("region")
    if not region:
        return case == finding.get("exemplar")
    fn = REGIONS.get(region)
    return bool(fn and fn(case))


REGIONS = {}
