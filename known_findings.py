"""Matching of replayed violations against the *open* entries of
known_findings.jsonl.  A finding is identified by a region predicate over the
replay case (plus its exemplar); anything outside every listed region is still
reported as a VIOLATION.  The file is never written at run time."""


def matches(finding, case):
    region = finding.get("region")
    if not region:
        return case == finding.get("exemplar")
    fn = REGIONS.get(region)
    return bool(fn and fn(case))


def c12_fmt4_bounded_nominal(case):
    """duration/end notation, n >= 2 repetitions, interval with years or months"""
    d = case.get("dur", {})
    return (case.get("check") == "iter" and case.get("fmt") == 4 and (case.get("reps") or 0) >= 2 and
            bool(d.get("years") or d.get("months")))


def c12_fmt3_bounded_nominal(case):
    """start/duration notation, n >= 3 repetitions (n = 2 is exact by construction),
    interval with years or months"""
    d = case.get("dur", {})
    return (case.get("check") == "iter" and case.get("fmt") == 3 and (case.get("reps") or 0) >= 3 and
            bool(d.get("years") or d.get("months")))


def c20_week53_360day(case):
    """360-day calendar, truncated point naming week 53 (which no 360-day year has)"""
    return (case.get("check") == "termination" and case.get("mode") == "360day" and
            (case.get("t") or {}).get("week_of_year") == 53)


REGIONS = {"c20_week53_360day": c20_week53_360day, "c12_fmt4_bounded_nominal": c12_fmt4_bounded_nominal,
           "c12_fmt3_bounded_nominal": c12_fmt3_bounded_nominal}
