"""refmodel -- the oracle: a short closed-form model of the proleptic calendars
that metomi.isodatetime implements, written once over an `ops` backend so the
same definitions serve as z3 terms (assertions) and as Python ints (replays).

Day numbers count days from 0000-01-01 (= 0) in the active mode; only
differences matter.  Weekdays are anchored where the library anchors them:
2000-01-03 is a Monday in every mode.
"""
import z3

MODES = {
    "gregorian": "gregorian",
    "360day": "360day", "360_day": "360day",
    "365day": "365day", "365_day": "365day",
    "366day": "366day", "366_day": "366day",
}
SPELLINGS = list(MODES)
DIM = {
    "gregorian": (31, 28, 31, 30, 31, 30, 31, 31, 30, 31, 30, 31),
    "365day": (31, 28, 31, 30, 31, 30, 31, 31, 30, 31, 30, 31),
    "366day": (31, 29, 31, 30, 31, 30, 31, 31, 30, 31, 30, 31),
    "360day": (30,) * 12,
}


class PyOps:
    name = "py"

    @staticmethod
    def ite(c, a, b):
        return a if c else b

    @staticmethod
    def div(a, k):
        return a // k

    @staticmethod
    def mod(a, k):
        return a % k

    @staticmethod
    def And(*a):
        return all(a)

    @staticmethod
    def Or(*a):
        return any(a)

    @staticmethod
    def Not(a):
        return not a

    @staticmethod
    def const(v):
        return v

    true = True
    false = False


class Z3Ops:
    name = "z3"
    ite = staticmethod(z3.If)

    @staticmethod
    def div(a, k):          # k > 0: SMT-LIB div == floor division
        assert k > 0
        return a / k if z3.is_expr(a) else z3.IntVal(a // k)

    @staticmethod
    def mod(a, k):
        assert k > 0
        return a % k if z3.is_expr(a) else z3.IntVal(a % k)

    @staticmethod
    def And(*a):
        return z3.And(*[x if z3.is_expr(x) else z3.BoolVal(bool(x)) for x in a])

    @staticmethod
    def Or(*a):
        return z3.Or(*[x if z3.is_expr(x) else z3.BoolVal(bool(x)) for x in a])

    @staticmethod
    def Not(a):
        return z3.Not(a) if z3.is_expr(a) else z3.BoolVal(not a)

    @staticmethod
    def const(v):
        return z3.IntVal(v)

    true = z3.BoolVal(True)
    false = z3.BoolVal(False)


def canon(mode):
    return MODES[(mode or "gregorian").lower()]


def greg_leap(o, y):
    return o.Or(o.And(o.mod(y, 4) == 0, o.Not(o.mod(y, 100) == 0)),
                o.mod(y, 400) == 0)


def has_leap(mode):
    return canon(mode) == "gregorian"


def is_leap(o, mode, y):
    """the year has the long length (only gregorian has two lengths)"""
    if canon(mode) == "gregorian":
        return greg_leap(o, y)
    return o.false


def days_in_year(o, mode, y):
    m = canon(mode)
    if m == "gregorian":
        return o.ite(greg_leap(o, y), 366, 365)
    return o.const({"360day": 360, "365day": 365, "366day": 366}[m])


def diy_const(mode):
    return {"gregorian": 365, "360day": 360, "365day": 365, "366day": 366}[canon(mode)]


def _table(o, idx, table, base=1):
    """table[idx-base] as an ite chain (last entry is the default)"""
    e = o.const(table[-1])
    for i in range(len(table) - 1, 0, -1):
        e = o.ite(idx == i - 1 + base, table[i - 1], e)
    return e


def days_in_month(o, mode, y, m):
    mo = canon(mode)
    base = _table(o, m, DIM[mo])
    if mo == "gregorian":
        return base + o.ite(o.And(m == 2, greg_leap(o, y)), 1, 0)
    return base


def cum_days(o, mode, y, m):
    """days of the year before month m"""
    mo = canon(mode)
    cum = [0]
    for d in DIM[mo][:-1]:
        cum.append(cum[-1] + d)
    base = _table(o, m, cum)
    if mo == "gregorian":
        return base + o.ite(o.And(m > 2, greg_leap(o, y)), 1, 0)
    return base


def leaps_upto(o, y):
    return o.div(y, 4) - o.div(y, 100) + o.div(y, 400)


def days_before_year(o, mode, y):
    mo = canon(mode)
    if mo == "gregorian":
        return 365 * y + leaps_upto(o, y - 1)
    return diy_const(mo) * y


def days_in_year_range(o, mode, a, b):
    """inclusive [a, b]; 0 when a > b"""
    return o.ite(a > b, 0, days_before_year(o, mode, b + 1) - days_before_year(o, mode, a))


def daynum_cal(o, mode, y, m, d):
    return days_before_year(o, mode, y) + cum_days(o, mode, y, m) + d - 1


def daynum_ord(o, mode, y, doy):
    return days_before_year(o, mode, y) + doy - 1


def _n0(mode):
    """day number of 2000-01-03 (a Monday by the library's anchor)"""
    return days_before_year(PyOps, mode, 2000) + 2


def weekday0(o, mode, n):
    """0 = Monday ... 6 = Sunday"""
    return o.mod(n - _n0(mode), 7)


def monday_week1(o, mode, wy):
    jan4 = days_before_year(o, mode, wy) + 3
    return jan4 - weekday0(o, mode, jan4)


def weeks_in_year(o, mode, wy):
    return o.div(monday_week1(o, mode, wy + 1) - monday_week1(o, mode, wy), 7)


def daynum_week(o, mode, wy, w, wd):
    return monday_week1(o, mode, wy) + 7 * (w - 1) + wd - 1


def valid_cal(o, mode, y, m, d):
    return o.And(m >= 1, m <= 12, d >= 1, d <= days_in_month(o, mode, y, m))


def valid_ord(o, mode, y, doy):
    return o.And(doy >= 1, doy <= days_in_year(o, mode, y))


def valid_week(o, mode, wy, w, wd):
    return o.And(w >= 1, w <= weeks_in_year(o, mode, wy), wd >= 1, wd <= 7)


def valid_tz(o, tzh, tzm):
    return o.And(tzh >= -99, tzh <= 99, tzm >= -59, tzm <= 59,
                 o.Or(tzh == 0, o.And(tzh > 0, tzm >= 0), o.And(tzh < 0, tzm <= 0)))


def valid_time(o, h, mi, s, allow24=True):
    ok = o.And(h >= 0, h <= 23, mi >= 0, mi <= 59, s >= 0, s <= 59)
    if allow24:
        return o.Or(ok, o.And(h == 24, mi == 0, s == 0))
    return ok


# ---- concrete inverses (replays / printing only) --------------------------
def py_year_of_daynum(mode, n):
    mo = canon(mode)
    if mo != "gregorian":
        return n // diy_const(mo)
    y = n // 366
    while days_before_year(PyOps, mo, y + 1) <= n:
        y += 1
    while days_before_year(PyOps, mo, y) > n:
        y -= 1
    return y


def py_ord_of_daynum(mode, n):
    y = py_year_of_daynum(mode, n)
    return y, n - days_before_year(PyOps, mode, y) + 1


def py_cal_of_daynum(mode, n):
    y, doy = py_ord_of_daynum(mode, n)
    m = 1
    while m < 12 and cum_days(PyOps, mode, y, m + 1) < doy:
        m += 1
    return y, m, doy - cum_days(PyOps, mode, y, m)


def py_week_of_daynum(mode, n):
    y = py_year_of_daynum(mode, n)
    wy = y + 1
    while monday_week1(PyOps, mode, wy) > n:
        wy -= 1
    k = n - monday_week1(PyOps, mode, wy)
    return wy, k // 7 + 1, k % 7 + 1


def selfcheck():
    """sanity of the Gregorian oracle against datetime (1..9999 sampled +
    every day 1995-2005 + century boundaries)."""
    import datetime
    o = PyOps
    base = daynum_cal(o, "gregorian", 1, 1, 1) - datetime.date(1, 1, 1).toordinal()
    years = list(range(1, 9999, 37)) + list(range(1895, 2105)) + [1, 4, 100, 400, 9999]
    for y in years:
        for (m, d) in ((1, 1), (1, 4), (2, 28), (3, 1), (12, 28), (12, 31), (7, 15)):
            dt = datetime.date(y, m, d)
            n = daynum_cal(o, "gregorian", y, m, d)
            assert n - base == dt.toordinal(), (y, m, d)
            iy, iw, iwd = dt.isocalendar()
            if 1 < y < 9999:
                assert py_week_of_daynum("gregorian", n) == (iy, iw, iwd), (y, m, d)
                assert daynum_week(o, "gregorian", iy, iw, iwd) == n
            assert py_cal_of_daynum("gregorian", n) == (y, m, d)
            assert py_ord_of_daynum("gregorian", n) == (y, dt.timetuple().tm_yday)
            assert weekday0(o, "gregorian", n) == dt.weekday()
    for mode in ("360day", "365day", "366day"):
        for n in range(-800, 800, 7):
            y, m, d = py_cal_of_daynum(mode, n)
            assert daynum_cal(o, mode, y, m, d) == n
            wy, w, wd = py_week_of_daynum(mode, n)
            assert daynum_week(o, mode, wy, w, wd) == n and 1 <= w <= weeks_in_year(o, mode, wy)
    return True


if __name__ == "__main__":
    print(selfcheck())
