#!/usr/bin/env python3
"""Regenerate MANIFEST.json from the check modules present in checks/ and the
table below.  Run after adding/removing a check:  python3 mkmanifest.py"""
import json
import os

HERE = os.path.dirname(os.path.abspath(__file__))
ALL = ["C%02d" % i for i in range(1, 21)]

TECH = "bounded symbolic (concolic) execution of the real Python functions with z3 deciding every path; counterexamples replayed on the pristine package"

def claims():
    """claim text comes from each check module's INFO"""
    import importlib
    import sys
    sys.path.insert(0, HERE)
    out = {}
    for pid in ALL:
        if not os.path.exists(os.path.join(HERE, "checks", pid.lower() + ".py")):
            continue
        mod = importlib.import_module("checks." + pid.lower())
        info = getattr(mod, "INFO", None)
        if not info or getattr(mod, "DISABLED", False):
            continue
        q = info.get("bounds", {}).get("quick", info.get("bounds", {}))
        out[pid] = dict(
            text=info["explanation"] + " Verdict = z3 unsat on every feasible path inside the stated bounds (quick tier: %s). "
                 "A bounded claim, not a proof; outside the claim: %s." % (
                     json.dumps(q, sort_keys=True), "; ".join(info.get("outside", [])) or "nothing further"),
            note="Trusted: CPython, z3, the symx proxies/shims (validated on every run by executing the repository's own "
                 "tests through the instrumented loader), refmodel.py (cross-checked against datetime). " +
                 " ".join(a.rstrip(".") + "." for a in info.get("assumptions", [])),
            design="DESIGN.md section 6 " + pid)
    return out


PENDING_REASON = "check not built yet in this round (planned: DESIGN.md section 6); nothing is claimed"


def main():
    CLAIMS = claims()
    checks = []
    na = []
    for pid in ALL:
        have = os.path.exists(os.path.join(HERE, "checks", pid.lower() + ".py"))
        if have and pid in CLAIMS:
            c = CLAIMS[pid]
            checks.append({
                "property_id": pid,
                "quick_cmd": "./vcheck %s --tier quick" % pid,
                "thorough_cmd": "./vcheck %s --tier thorough" % pid,
                "evidence_file": "evidence/%s.json" % pid,
                "replay_cmd_template": "./vcheck replay {path}",
                "engine": "symx",
                "level_claimed": {"category": "other", "text": c["text"], "design_ref": c["design"]},
                "level_note": c["note"],
                "technique": c.get("technique", TECH),
            })
        else:
            na.append({"property_id": pid, "reason": NA.get(pid, PENDING_REASON)})
    man = {
        "version": 1,
        "setup_cmd": "sh ./setup.sh",
        "hooks": {
            "guard": "METOMI_ISODATETIME_VERIF",
            "enable": "no source hooks: the checks load /repo's working-tree sources through an import hook "
                      "(symx/loader.py) that rewrites the AST in memory; METOMI_ISODATETIME_VERIF is unused by /repo",
            "baseline_off_cmd": "cd /repo && /venv/bin/python -m pytest -ra -q -p no:cacheprovider --timeout=900 --continue-on-collection-errors",
            "source_commits": [],
            "add_only": True,
        },
        "engines": [{
            "name": "symx", "path": "symx/",
            "serves_properties": [c["property_id"] for c in checks],
            "kind_free_text": "own concolic/symbolic executor for Python over z3 (linear integer proxies, incremental "
                              "DFS over branch decisions, exact floor-division identities, year = 400K+100c+4q+s "
                              "decomposition); CrossHair 0.0.110 is used as a second engine where it terminates",
        }],
        "checks": checks,
        "not_applicable": na,
        "notes": "Every check regenerates its encoding from /repo's current sources on each run; exit 0 = held within the "
                 "stated bounds, 1 = replayed violation, 3 = harness error (never a verdict). See DESIGN.md.",
    }
    with open(os.path.join(HERE, "MANIFEST.json"), "w") as fh:
        json.dump(man, fh, indent=1)
        fh.write("\n")
    print("MANIFEST.json: %d checks, %d not_applicable" % (len(checks), len(na)))


NA = {}

if __name__ == "__main__":
    main()
