#!/bin/sh
# Build the tooling overlay venv from files on disk only (offline).
set -e
cd "$(dirname "$0")"
if [ ! -x .venv/bin/python ] || ! .venv/bin/python -c "import z3" 2>/dev/null; then
  rm -rf .venv
  /venv/bin/python -m venv .venv
  SP=$(.venv/bin/python -c "import sysconfig; print(sysconfig.get_paths()['purelib'])")
  printf '/venv/lib/python3.12/site-packages\n' > "$SP/overlay.pth"
  PIP_NO_INDEX=1 .venv/bin/pip install -q --no-index --find-links /opt/veriftools/wheels z3-solver crosshair-tool cvc5 jsonschema >/dev/null
fi
.venv/bin/python -c "import z3, pytest; print('verif venv ok: z3', z3.get_version_string())"
