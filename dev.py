"""dev driver: python dev.py c03 job_lengths mode=gregorian"""
import sys, json, ast
sys.path.insert(0, "/verif")
from symx import runner
mod, fn = sys.argv[1], sys.argv[2]
kw = {}
for a in sys.argv[3:]:
    k, v = a.split("=", 1)
    try: kw[k] = ast.literal_eval(v)
    except Exception: kw[k] = v
for r in runner.run_job((mod, fn, kw, "quick", 0)):
    ent = r.pop("entered", {})
    print(json.dumps({k: v for k, v in r.items() if k not in ("samples","scenarios")}, indent=1, default=str)[:3000])
    print("scenarios", list(r.get("scenarios", {})))
    print("entered", dict(sorted(ent.items(), key=lambda kv: -kv[1])[:12]))
